(* Theory/Storage.v — theorems about Model/Storage.v (property C16: storage, indexing, assignment, operand
   normalisation).  No ring structure is needed anywhere: every statement holds for an arbitrary coefficient
   type R.

     A. 1-D arrays: set_nth / write_pos / pick (frame, hit, round trips).
     B. subscripts: norm_int raises IndexError exactly outside [-n, n); a slice never raises IndexError, its
        positions are in range and pairwise distinct; the meaning of a positive-step slice.
     C. __getitem__: X[idx] has the keys of X in the same order and holds for every key exactly
        values[key][idx], for the three storage kinds; which subscripts raise.
     D. __setitem__ (the code after kingdon 76adadb: blade by blade for every storage kind): frame (whatever
        happens, only addressed entries of a coefficient can change), exactness and the getitem-after-setitem
        round trip, with V's coefficients broadcast to the addressed shape of their own blade (aligned
        coefficients are stored as they are, numbers are repeated), when it succeeds and what it raises,
        setitem-of-getitem is the identity, other keys are refused.
     E. operands: call_binary with enough fuel equals a fuel-free structural specification
        (eval_tree (denote l) (denote r)); scalar wrapping, sequences on either side, nested callables and
        their compositions are corollaries.
     F. non-vacuity examples. *)
From Coq Require Import List ZArith Bool Lia Arith.
From KV Require Import Model.Storage.
Import ListNotations.

(* ================================================================================================
   A. lists and 1-D arrays *)
Section Arrays.
  Context {R : Type}.
  Implicit Types (a vs : list R) (ps : list nat).

  Lemma nth_error_ext_eq (l l' : list R) : (forall i, nth_error l i = nth_error l' i) -> l = l'.
  Proof.
    revert l'. induction l as [|x l IH]; intros [|y l'] H.
    - reflexivity.
    - specialize (H 0). discriminate.
    - specialize (H 0). discriminate.
    - pose proof (H 0) as H0. cbn in H0. injection H0 as ->. f_equal. apply IH. intro i. exact (H (S i)).
  Qed.

  Lemma set_nth_length p v a : length (set_nth p v a) = length a.
  Proof. revert p. induction a as [|x a IH]; intros [|p]; cbn; auto. Qed.

  Lemma nth_error_set_nth p v a q :
    nth_error (set_nth p v a) q = if Nat.eqb q p && Nat.ltb p (length a) then Some v else nth_error a q.
  Proof.
    revert p q. induction a as [|x a IH]; intros p q.
    - cbn. destruct p; cbn; rewrite andb_false_r; reflexivity.
    - destruct p as [|p], q as [|q]; cbn [set_nth nth_error length]; try reflexivity.
      rewrite IH. reflexivity.
  Qed.

  Lemma set_nth_same p x a : nth_error a p = Some x -> set_nth p x a = a.
  Proof.
    revert p. induction a as [|y a IH]; intros [|p] H; cbn in *; try discriminate.
    - injection H as ->. reflexivity.
    - f_equal. apply IH, H.
  Qed.

  Lemma write_pos_length ps vs a : length (write_pos ps vs a) = length a.
  Proof.
    revert vs a. induction ps as [|p ps IH]; intros [|v vs] a; cbn; auto.
    rewrite IH. apply set_nth_length.
  Qed.

  (* frame: a position that is not addressed keeps its value -- no hypothesis at all *)
  Lemma write_pos_frame ps vs a q : ~ In q ps -> nth_error (write_pos ps vs a) q = nth_error a q.
  Proof.
    revert vs a. induction ps as [|p ps IH]; intros [|v vs] a Hq; cbn; auto.
    rewrite IH by (intro; apply Hq; right; assumption).
    rewrite nth_error_set_nth.
    destruct (Nat.eqb_spec q p) as [->|]; [exfalso; apply Hq; left; reflexivity | reflexivity].
  Qed.

  (* hit: the t-th addressed position receives the t-th value *)
  Lemma write_pos_hit ps vs a t p :
    NoDup ps -> Forall (fun p => p < length a) ps -> length vs = length ps ->
    nth_error ps t = Some p -> nth_error (write_pos ps vs a) p = nth_error vs t.
  Proof.
    revert vs a t. induction ps as [|p0 ps IH]; intros vs a t Hnd Hin Hlen Ht.
    - destruct t; discriminate.
    - destruct vs as [|v0 vs]; [discriminate|]. cbn [write_pos].
      inversion Hnd as [|? ? Hnot Hnd']; subst. inversion Hin as [|? ? Hp0 Hin']; subst.
      destruct t as [|t]; cbn in Ht.
      + injection Ht as <-. rewrite write_pos_frame by assumption.
        rewrite nth_error_set_nth, Nat.eqb_refl. apply Nat.ltb_lt in Hp0. rewrite Hp0. reflexivity.
      + cbn [nth_error]. apply IH; auto.
        rewrite set_nth_length. assumption.
  Qed.

  Lemma pick_cons p ps a x : nth_error a p = Some x -> pick (p :: ps) a = x :: pick ps a.
  Proof. intro H. unfold pick. cbn. rewrite H. reflexivity. Qed.

  Lemma in_range_nth a p : p < length a -> exists x, nth_error a p = Some x.
  Proof. intro H. destruct (nth_error a p) eqn:E; [eauto|]. apply nth_error_None in E. lia. Qed.

  Lemma pick_length ps a : Forall (fun p => p < length a) ps -> length (pick ps a) = length ps.
  Proof.
    induction 1 as [|p ps Hp _ IH]; [reflexivity|].
    destruct (in_range_nth _ _ Hp) as [x Hx]. rewrite (pick_cons _ _ _ _ Hx). cbn. f_equal. exact IH.
  Qed.

  Lemma nth_error_pick ps a t : Forall (fun p => p < length a) ps ->
    nth_error (pick ps a) t = match nth_error ps t with Some p => nth_error a p | None => None end.
  Proof.
    intro H. revert t. induction H as [|p ps Hp _ IH]; intro t.
    - destruct t; reflexivity.
    - destruct (in_range_nth _ _ Hp) as [x Hx]. rewrite (pick_cons _ _ _ _ Hx).
      destruct t; cbn; [symmetry; exact Hx | apply IH].
  Qed.

  (* reading back what was written *)
  Lemma pick_write ps vs a :
    NoDup ps -> Forall (fun p => p < length a) ps -> length vs = length ps -> pick ps (write_pos ps vs a) = vs.
  Proof.
    intros Hnd Hin Hlen. apply nth_error_ext_eq. intro t.
    rewrite nth_error_pick by (rewrite write_pos_length; assumption).
    destruct (nth_error ps t) as [p|] eqn:Ht.
    - eapply write_pos_hit; eassumption.
    - symmetry. apply nth_error_None. apply nth_error_None in Ht. lia.
  Qed.

  (* writing back what was read *)
  Lemma write_pick ps a : Forall (fun p => p < length a) ps -> write_pos ps (pick ps a) a = a.
  Proof.
    induction 1 as [|p ps Hp _ IH]; [reflexivity|].
    destruct (in_range_nth _ _ Hp) as [x Hx]. rewrite (pick_cons _ _ _ _ Hx). cbn [write_pos].
    rewrite (set_nth_same _ _ _ Hx). exact IH.
  Qed.

  Lemma nth_error_seq k n t : nth_error (seq k n) t = if Nat.ltb t n then Some (k + t) else None.
  Proof.
    revert k t. induction n as [|n IH]; intros k t.
    - destruct t; reflexivity.
    - destruct t; cbn [seq nth_error].
      + cbn. f_equal. lia.
      + rewrite IH. change (S t <? S n) with (t <? n). destruct (t <? n); [f_equal; lia | reflexivity].
  Qed.

  Lemma seq_in_range n : Forall (fun p => p < n) (seq 0 n).
  Proof. apply Forall_forall. intros p Hp. apply in_seq in Hp. lia. Qed.

  (* the empty subscript addresses the whole array *)
  Lemma pick_seq a : pick (seq 0 (length a)) a = a.
  Proof.
    apply nth_error_ext_eq. intro t. rewrite nth_error_pick by apply seq_in_range.
    rewrite nth_error_seq. destruct (Nat.ltb_spec t (length a)); [reflexivity|].
    symmetry. apply nth_error_None. lia.
  Qed.

  Lemma pick_repeat_write ps c a : NoDup ps -> Forall (fun p => p < length a) ps ->
    pick ps (write_pos ps (repeat c (length ps)) a) = repeat c (length ps).
  Proof. intros. apply pick_write; auto. apply repeat_length. Qed.
End Arrays.

(* mapM: all succeed, or the first failure *)
Section MapMFacts.
  Context {A B : Type} (f : A -> res B).

  Lemma mapM_Ok l l' : mapM f l = Ok l' <-> Forall2 (fun a b => f a = Ok b) l l'.
  Proof.
    revert l'. induction l as [|a l IH]; intro l'; cbn.
    - split; [intros [= <-]; constructor | inversion 1; reflexivity].
    - destruct (f a) as [b|e] eqn:E; cbn.
      + destruct (mapM f l) as [bs|e] eqn:E'; cbn.
        * split.
          -- intros [= <-]. constructor; [assumption | apply IH; reflexivity].
          -- inversion 1 as [|? ? ? ? H1 H2]; subst. rewrite E in H1. injection H1 as <-.
             apply IH in H2. injection H2 as <-. reflexivity.
        * split; [discriminate|]. inversion 1 as [|? ? ? ? H1 H2]; subst. apply IH in H2. discriminate.
      + split; [discriminate|]. inversion 1 as [|? ? ? ? H1 H2]; subst. rewrite E in H1. discriminate.
  Qed.

  (* the exception of a failing comprehension is the one of the FIRST failing element *)
  Lemma mapM_Err l e : mapM f l = Err e <->
    exists pre x post bs, l = pre ++ x :: post /\ Forall2 (fun a b => f a = Ok b) pre bs /\ f x = Err e.
  Proof.
    split.
    - revert e. induction l as [|a l IH]; intros e H; cbn in H; [discriminate|].
      destruct (f a) as [b|e0] eqn:E; cbn in H.
      + destruct (mapM f l) as [bs|e1] eqn:E'; cbn in H; [discriminate|]. injection H as ->.
        destruct (IH _ eq_refl) as (pre & x & post & bs' & -> & H1 & H2).
        exists (a :: pre), x, post, (b :: bs'). repeat split; auto.
      + injection H as ->. exists [], a, l, []. repeat split; auto.
    - intros (pre & x & post & bs & -> & H1 & H2). induction H1 as [|a b pre bs Ha _ IH]; cbn.
      + rewrite H2. reflexivity.
      + rewrite Ha. cbn. rewrite IH. reflexivity.
  Qed.

  Lemma mapM_ext_in (g : A -> res B) l : (forall a, In a l -> f a = g a) -> mapM f l = mapM g l.
  Proof.
    induction l as [|a l IH]; intro H; cbn; [reflexivity|].
    rewrite (H a (or_introl eq_refl)), IH; [reflexivity|]. intros; apply H; right; assumption.
  Qed.
End MapMFacts.

Lemma mapM_map {A B C} (f : B -> res C) (g : A -> B) l : mapM f (map g l) = mapM (fun a => f (g a)) l.
Proof. induction l as [|a l IH]; cbn; [reflexivity|]. rewrite IH. reflexivity. Qed.

(* ================================================================================================
   B. subscripts *)
Local Ltac dz :=
  repeat match goal with
  | |- context [Z.ltb ?a ?b] => destruct (Z.ltb_spec a b)
  | |- context [Z.leb ?a ?b] => destruct (Z.leb_spec a b)
  | |- context [Z.eqb ?a ?b] => destruct (Z.eqb_spec a b)
  | H : context [Z.ltb ?a ?b] |- _ => destruct (Z.ltb_spec a b)
  | H : context [Z.leb ?a ?b] |- _ => destruct (Z.leb_spec a b)
  | H : context [Z.eqb ?a ?b] |- _ => destruct (Z.eqb_spec a b)
  end.

(* an integer subscript raises IndexError exactly outside [-n, n) *)
Lemma norm_int_Err n i e :
  norm_int n i = Err e <-> e = EIndex /\ (i < - Z.of_nat n \/ Z.of_nat n <= i)%Z.
Proof.
  unfold norm_int. split.
  - intro H. dz; cbn in H; try discriminate; injection H as <-; split; auto.
  - intros [-> H]. dz; cbn; try reflexivity; lia.
Qed.

Lemma norm_int_Ok n i p :
  norm_int n i = Ok p <->
  (- Z.of_nat n <= i < Z.of_nat n)%Z /\ Z.of_nat p = (if i <? 0 then i + Z.of_nat n else i)%Z.
Proof.
  unfold norm_int. split.
  - intro H. dz; cbn in H; try discriminate; injection H as <-; split; lia.
  - intros [H1 H2]. dz; cbn; try lia; f_equal; lia.
Qed.

Lemma norm_int_lt n i p : norm_int n i = Ok p -> p < n.
Proof. intro H. apply norm_int_Ok in H. destruct H as [H1 H2]. dz; lia. Qed.

(* a slice raises only for a zero step (ValueError), never IndexError *)
Lemma slice_indices_Err n s e : slice_indices n s = Err e <-> e = EValue /\ sl_step s = Some 0%Z.
Proof.
  unfold slice_indices. destruct (sl_step s) as [k|]; cbn.
  - destruct (Z.eqb_spec k 0) as [->|Hk].
    + split; [intros [= <-]; auto | intros [-> _]; reflexivity].
    + split; [discriminate | intros [_ [= ->]]; contradiction].
  - split; [discriminate | intros [_ H]; discriminate].
Qed.

Lemma slice_indices_bounds n s start stop step :
  (0 <= n)%Z -> slice_indices n s = Ok (start, stop, step) ->
  (step <> 0 /\
   (0 < step -> 0 <= start <= n /\ 0 <= stop <= n) /\
   (step < 0 -> -1 <= start <= n - 1 /\ -1 <= stop <= n - 1))%Z.
Proof.
  intros Hn H. unfold slice_indices in H.
  destruct (Z.eqb_spec (match sl_step s with Some k => k | None => 1 end) 0) as [E|E]; [discriminate|].
  injection H as <- <- <-.
  set (st := match sl_step s with Some k => k | None => 1%Z end) in *.
  split; [exact E|].
  destruct (sl_start s) as [a|], (sl_stop s) as [b|]; split; intro Hs; dz; lia.
Qed.

Lemma slice_len_nonneg start stop step : (0 <= slice_len start stop step)%Z.
Proof.
  unfold slice_len. dz; try lia.
  - assert (0 <= (start - stop - 1) / - step)%Z by (apply Z.div_pos; lia). lia.
  - destruct (Z.eq_dec step 0) as [->|]; [rewrite Zdiv_0_r; lia|].
    assert (0 <= (stop - start - 1) / step)%Z by (apply Z.div_pos; lia). lia.
Qed.

Lemma slice_len_pos_bound start stop step j :
  (0 < step -> 0 <= j < slice_len start stop step -> start <= start + j * step < stop)%Z.
Proof.
  intros Hs [Hj0 Hj]. unfold slice_len in Hj. dz; try lia.
  pose proof (Z.mul_div_le (stop - start - 1) step Hs).
  assert (step * j <= step * ((stop - start - 1) / step))%Z by (apply Z.mul_le_mono_nonneg_l; lia).
  nia.
Qed.

Lemma slice_len_neg_bound start stop step j :
  (step < 0 -> 0 <= j < slice_len start stop step -> stop < start + j * step <= start)%Z.
Proof.
  intros Hs [Hj0 Hj]. unfold slice_len in Hj. dz; try lia.
  assert (0 < - step)%Z as Hs' by lia.
  pose proof (Z.mul_div_le (start - stop - 1) (- step) Hs').
  assert (- step * j <= - step * ((start - stop - 1) / - step))%Z by (apply Z.mul_le_mono_nonneg_l; lia).
  nia.
Qed.

Lemma NoDup_map_inj_in {A B} (f : A -> B) l :
  NoDup l -> (forall x y, In x l -> In y l -> f x = f y -> x = y) -> NoDup (map f l).
Proof.
  induction 1 as [|x l Hx Hnd IH]; intro Hinj; cbn; constructor.
  - intro Hin. apply in_map_iff in Hin. destruct Hin as (y & Hy & Hyl).
    assert (y = x) by (apply Hinj; [right; assumption | left; reflexivity | assumption]). subst. contradiction.
  - apply IH. intros; apply Hinj; auto; right; assumption.
Qed.

(* the positions of a slice are in range and pairwise distinct *)
Lemma slice_pos_wf n s ps : slice_pos n s = Ok ps -> Forall (fun p => p < n) ps /\ NoDup ps.
Proof.
  unfold slice_pos. destruct (slice_indices (Z.of_nat n) s) as [[[start stop] step]|e] eqn:E; cbn; [|discriminate].
  intros [= <-].
  destruct (slice_indices_bounds _ _ _ _ _ (Nat2Z.is_nonneg n) E) as (Hs0 & Hpos & Hneg).
  pose proof (slice_len_nonneg start stop step) as HL.
  assert (Hrange : forall j, In j (seq 0 (Z.to_nat (slice_len start stop step))) ->
                             (0 <= start + Z.of_nat j * step < Z.of_nat n)%Z).
  { intros j Hj. apply in_seq in Hj.
    assert (0 <= Z.of_nat j < slice_len start stop step)%Z as Hj' by lia.
    destruct (Z.lt_trichotomy step 0) as [Hlt|[Heq|Hgt]]; [|contradiction|].
    - pose proof (slice_len_neg_bound start stop step _ Hlt Hj'). specialize (Hneg Hlt). lia.
    - pose proof (slice_len_pos_bound start stop step _ Hgt Hj'). specialize (Hpos Hgt). lia. }
  split.
  - apply Forall_forall. intros p Hp. apply in_map_iff in Hp. destruct Hp as (j & <- & Hj).
    specialize (Hrange j Hj). lia.
  - apply NoDup_map_inj_in; [apply seq_NoDup|].
    intros i j Hi Hj Heq. pose proof (Hrange i Hi). pose proof (Hrange j Hj).
    assert (start + Z.of_nat i * step = start + Z.of_nat j * step)%Z as Heq' by lia.
    assert ((Z.of_nat i - Z.of_nat j) * step = 0)%Z as Hm by lia.
    apply Z.mul_eq_0 in Hm. lia.
Qed.

Lemma slice_pos_Err n s e : slice_pos n s = Err e <-> e = EValue /\ sl_step s = Some 0%Z.
Proof.
  unfold slice_pos. destruct (slice_indices (Z.of_nat n) s) as [[[start stop] step]|e0] eqn:E; cbn.
  - split; [discriminate|]. intro H. apply (proj2 (slice_indices_Err (Z.of_nat n) s e)) in H. rewrite H in E. discriminate.
  - rewrite <- (slice_indices_Err (Z.of_nat n) s e). rewrite E. split; congruence.
Qed.

(* the meaning of a slice with a positive step: the positions p with start <= p < stop (after clipping to
   [0, n], negative bounds counted from the end) that are congruent to start modulo the step *)
Lemma slice_pos_meaning n s start stop step ps :
  slice_indices (Z.of_nat n) s = Ok (start, stop, step) -> (0 < step)%Z -> slice_pos n s = Ok ps ->
  forall p, In p ps <-> (start <= Z.of_nat p < stop /\ (Z.of_nat p - start) mod step = 0)%Z.
Proof.
  intros E Hs Hps p. unfold slice_pos in Hps. rewrite E in Hps. cbn in Hps. injection Hps as <-.
  destruct (slice_indices_bounds _ _ _ _ _ (Nat2Z.is_nonneg n) E) as (_ & Hpos & _). specialize (Hpos Hs).
  pose proof (slice_len_nonneg start stop step) as HL.
  rewrite in_map_iff. split.
  - intros (j & <- & Hj). apply in_seq in Hj.
    assert (0 <= Z.of_nat j < slice_len start stop step)%Z as Hj' by lia.
    pose proof (slice_len_pos_bound start stop step _ Hs Hj').
    rewrite Z2Nat.id by lia. split; [lia|].
    replace (start + Z.of_nat j * step - start)%Z with (Z.of_nat j * step)%Z by lia. apply Z.mod_mul. lia.
  - intros [Hr Hm].
    assert (Z.of_nat p - start = step * ((Z.of_nat p - start) / step))%Z as Hd
      by (apply Z_div_exact_full_2; lia).
    set (q := ((Z.of_nat p - start) / step)%Z) in *.
    assert (0 <= q)%Z by (apply Z.div_pos; lia).
    assert (q < slice_len start stop step)%Z.
    { unfold slice_len. dz; try lia.
      assert (q <= (stop - start - 1) / step)%Z by (apply Z.div_le_lower_bound; lia). lia. }
    exists (Z.to_nat q). split.
    + rewrite Z2Nat.id by lia. lia.
    + apply in_seq. lia.
Qed.

(* X[:] addresses every position, in order *)
Lemma slice_pos_full n : slice_pos n (mkSlice None None None) = Ok (seq 0 n).
Proof.
  unfold slice_pos, slice_indices, slice_len. cbn -[Z.div Z.of_nat Z.to_nat Z.mul Z.add].
  f_equal.
  assert (Z.to_nat (if (0 <? Z.of_nat n)%Z then (Z.of_nat n - 0 - 1) / 1 + 1 else 0)%Z = n) as ->.
  { rewrite Z.div_1_r. dz; lia. }
  rewrite <- (map_id (seq 0 n)) at 2. apply map_ext. intro j. lia.
Qed.

(* what a subscript tuple addresses on one axis *)
Definition addr_wf (n : nat) (ad : addr) : Prop :=
  match ad with AOne p => p < n | AMany ps => Forall (fun p => p < n) ps /\ NoDup ps end.

Lemma addr_of_wf n ix ad : addr_of n ix = Ok ad -> addr_wf n ad.
Proof.
  destruct ix as [|[i|s] [|? ?]]; cbn; try discriminate.
  - intros [= <-]. split; [apply seq_in_range | apply seq_NoDup].
  - destruct (norm_int n i) eqn:E; cbn; [|discriminate]. intros [= <-]. eapply norm_int_lt; eassumption.
  - destruct (slice_pos n s) eqn:E; cbn; [|discriminate]. intros [= <-]. eapply slice_pos_wf; eassumption.
Qed.

(* which subscripts raise, and what: IndexError exactly for an integer outside [-n, n) and for two or more
   subscripts on one axis; ValueError exactly for a zero slice step; nothing else raises *)
Lemma addr_of_Err n ix e :
  addr_of n ix = Err e <->
  (exists i, ix = [IInt i] /\ e = EIndex /\ (i < - Z.of_nat n \/ Z.of_nat n <= i)%Z) \/
  (exists s, ix = [ISlice s] /\ e = EValue /\ sl_step s = Some 0%Z) \/
  (2 <= length ix /\ e = EIndex).
Proof.
  destruct ix as [|[i|s] [|j ix']]; cbn.
  - split; [discriminate|]. intros [(? & ? & _)|[(? & ? & _)|[? _]]]; try discriminate; lia.
  - destruct (norm_int n i) as [p|e0] eqn:E; cbn.
    + split; [discriminate|]. intros [(i' & [= <-] & -> & H)|[(? & ? & _)|[? _]]]; try discriminate; try lia.
      assert (norm_int n i = Err EIndex) by (apply norm_int_Err; auto). congruence.
    + apply norm_int_Err in E. destruct E as [-> E]. split.
      * intros [= <-]. left. eauto.
      * intros [(i' & [= <-] & -> & H)|[(? & ? & _)|[? _]]]; try discriminate; try lia. reflexivity.
  - split; [intros [= <-]; right; right; split; [lia | reflexivity]|].
    intros [(? & ? & _)|[(? & ? & _)|[_ ->]]]; try discriminate. reflexivity.
  - destruct (slice_pos n s) as [ps|e0] eqn:E; cbn.
    + split; [discriminate|]. intros [(? & ? & _)|[(s' & [= <-] & -> & H)|[? _]]]; try discriminate; try lia.
      assert (slice_pos n s = Err EValue) by (apply slice_pos_Err; auto). congruence.
    + apply slice_pos_Err in E. destruct E as [-> E]. split.
      * intros [= <-]. right; left. eauto.
      * intros [(? & ? & _)|[(s' & [= <-] & -> & H)|[? _]]]; try discriminate; try lia. reflexivity.
  - split; [intros [= <-]; right; right; split; [lia | reflexivity]|].
    intros [(? & ? & _)|[(? & ? & _)|[_ ->]]]; try discriminate. reflexivity.
Qed.

(* ================================================================================================
   C. __getitem__ *)
Section Getitem.
  Context {R : Type}.
  Implicit Types (X Y : smv R) (st : store R) (c : coef R).

  (* a 2-D ndarray is rectangular *)
  Definition wf_store st : Prop :=
    match st with Nd2 n rows => Forall (fun r => length r = n) rows | _ => True end.

  (* values[key][idx] for one coefficient, spelled out: a python number cannot be subscripted, a numpy scalar
     only by the empty tuple, an array gives the entry at the addressed position / the entries at the
     addressed positions, in the order of the subscript *)
  Lemma get_coef_spec ix c c' :
    get_coef ix c = Ok c' <->
    match c with
    | CNum _ => False
    | CNp x => ix = [] /\ c' = CNp x
    | CArr a => exists ad, addr_of (length a) ix = Ok ad /\
                match ad with
                | AOne p => exists x, nth_error a p = Some x /\ c' = CNp x
                | AMany ps => c' = CArr (pick ps a)
                end
    end.
  Proof.
    destruct c as [x|x|a]; cbn.
    - split; [discriminate | contradiction].
    - destruct ix; split; try discriminate.
      + intros [= <-]. auto.
      + intros [_ ->]. reflexivity.
      + intros [? _]. discriminate.
    - unfold get_arr. destruct (addr_of (length a) ix) as [[p|ps]|e]; cbn.
      + destruct (nth_error a p) as [x|] eqn:E; cbn; split.
        * intros [= <-]. exists (AOne p). split; [reflexivity | eauto].
        * intros (ad & Had & H). injection Had as <-. destruct H as (x' & Hx & ->). congruence.
        * discriminate.
        * intros (ad & Had & H). injection Had as <-. destruct H as (x' & Hx & _). congruence.
      + split; [intros [= <-]; exists (AMany ps); split; reflexivity | intros (ad & [= <-] & ->); reflexivity].
      + split; [discriminate | intros (ad & H & _); discriminate].
  Qed.

  Lemma get_coef_CArr_len ix a c' : get_coef ix (CArr a) = Ok c' ->
    match c' with CArr b => exists ps, addr_of (length a) ix = Ok (AMany ps) /\ b = pick ps a /\ length b = length ps
             | CNp _ => True | CNum _ => False end.
  Proof.
    intro H. apply get_coef_spec in H. destruct H as ([p|ps] & Had & H).
    - destruct H as (x & _ & ->). exact I.
    - subst c'. exists ps. repeat split; auto. apply pick_length. apply addr_of_wf in Had. apply Had.
  Qed.

  Lemma col_ok n rows p : Forall (fun r : list R => length r = n) rows -> p < n ->
    exists col, mapM (fun r => of_opt EIndex (nth_error r p)) rows = Ok col /\
                Forall2 (fun r x => nth_error r p = Some x) rows col.
  Proof.
    intros Hwf Hp. induction Hwf as [|r rows Hr _ (col & IH1 & IH2)].
    - exists []. split; [reflexivity | constructor].
    - destruct (in_range_nth r p) as [x Hx]; [lia|]. exists (x :: col). cbn. rewrite Hx. cbn. rewrite IH1. cbn.
      split; [reflexivity | constructor; assumption].
  Qed.

  (* X[idx]: the keys of X in the same order, and for every key exactly values[key][idx] -- the ndarray path
     values[(slice(None), *idx)] agrees entry for entry with the list path (value[idx] for value in values) *)
  Theorem getitem_exact X item Y :
    wf_store (s_vals X) -> mv_getitem X item = Ok Y ->
    s_keys Y = s_keys X /\
    Forall2 (fun v v' => get_coef (norm_item item) v = Ok v') (entries (s_vals X)) (entries (s_vals Y)) /\
    wf_store (s_vals Y).
  Proof.
    intros Hwf H. unfold mv_getitem in H. remember (norm_item item) as ix eqn:Eix. clear Eix.
    destruct (s_vals X) as [l|v|n rows]; cbn in H.
    - destruct (mapM (get_coef ix) l) as [l'|e] eqn:E; cbn in H; [|discriminate]. injection H as <-. cbn.
      repeat split; auto. apply mapM_Ok. exact E.
    - destruct ix; cbn in H; [|discriminate]. injection H as <-. cbn. repeat split; auto.
      induction v; cbn; constructor; auto.
    - destruct (addr_of n ix) as [[p|ps]|e] eqn:Ead; cbn in H; [| |discriminate].
      + pose proof (addr_of_wf _ _ _ Ead) as Hp. cbn in Hp.
        destruct (col_ok n rows p Hwf Hp) as (col & Hc1 & Hc2). rewrite Hc1 in H. cbn in H. injection H as <-. cbn.
        repeat split; auto. cbn in Hwf.
        clear Hc1. induction Hc2 as [|r x rows col Hrx _ IH]; cbn; constructor.
        * inversion Hwf; subst. apply get_coef_spec. exists (AOne p). split; [assumption | eauto].
        * inversion Hwf; subst. apply IH; assumption.
      + injection H as <-. cbn. pose proof (addr_of_wf _ _ _ Ead) as [Hin Hnd]. cbn in Hwf.
        repeat split; auto.
        * induction Hwf as [|r rows Hr _ IH]; cbn; constructor; auto.
          apply get_coef_spec. exists (AMany ps). rewrite Hr. auto.
        * apply Forall_forall. intros b Hb. apply in_map_iff in Hb. destruct Hb as (r & <- & Hr).
          apply pick_length. rewrite Forall_forall in Hwf. rewrite (Hwf r Hr). assumption.
  Qed.

  (* ... and when it raises: the exception of the FIRST coefficient (in key order) whose subscript fails for list
     storage; the subscript error of the trailing axis for ndarray storage, whatever the number of keys *)
  Theorem getitem_raises X item e :
    wf_store (s_vals X) ->
    (mv_getitem X item = Err e <->
     match s_vals X with
     | LBack l => exists pre c post cs, l = pre ++ c :: post /\
                    Forall2 (fun v v' => get_coef (norm_item item) v = Ok v') pre cs /\
                    get_coef (norm_item item) c = Err e
     | Nd1 _ => norm_item item <> [] /\ e = EIndex
     | Nd2 n _ => addr_of n (norm_item item) = Err e
     end).
  Proof.
    intros Hwf. unfold mv_getitem. remember (norm_item item) as ix eqn:Eix. clear Eix.
    destruct (s_vals X) as [l|v|n rows] eqn:EX; cbn.
    - destruct (mapM (get_coef ix) l) as [l'|e0] eqn:E; cbn.
      + split; [discriminate|]. intro H. apply (proj2 (mapM_Err _ _ _)) in H. congruence.
      + rewrite <- (mapM_Err (get_coef ix) l e). rewrite E. split; congruence.
    - destruct ix; cbn; split; try discriminate.
      + intros [H _]. contradiction.
      + intros [= <-]. split; [discriminate | reflexivity].
      + intros [_ ->]. reflexivity.
    - destruct (addr_of n ix) as [[p|ps]|e0] eqn:Ead; cbn.
      + pose proof (addr_of_wf _ _ _ Ead) as Hp. cbn in Hp.
        destruct (col_ok n rows p Hwf Hp) as (col & Hc1 & _). rewrite Hc1. cbn. split; discriminate.
      + split; discriminate.
      + split; congruence.
  Qed.

  (* an out-of-range integer raises IndexError, exactly *)
  Corollary getitem_int_nd2 keys n (rows : list (list R)) i :
    Forall (fun r => length r = n) rows ->
    (mv_getitem (mkSmv keys (Nd2 n rows)) (PyOne (IInt i)) = Err EIndex
     <-> (i < - Z.of_nat n \/ Z.of_nat n <= i)%Z) /\
    (forall e, mv_getitem (mkSmv keys (Nd2 n rows)) (PyOne (IInt i)) = Err e -> e = EIndex).
  Proof.
    intro Hwf.
    assert (Hr : forall e, mv_getitem (mkSmv keys (Nd2 n rows)) (PyOne (IInt i)) = Err e <-> addr_of n [IInt i] = Err e)
      by (intro e; apply (getitem_raises (mkSmv keys (Nd2 n rows)) (PyOne (IInt i)) e Hwf)).
    split.
    - rewrite Hr, addr_of_Err. split.
      + intros [(i' & [= <-] & _ & H)|[(s & ? & _)|[H _]]]; try discriminate; [exact H | cbn in H; lia].
      + intro H. left. eauto.
    - intros e H. apply Hr in H. apply addr_of_Err in H.
      destruct H as [(i' & _ & -> & _)|[(s & ? & _)|[H _]]]; try discriminate; [reflexivity | cbn in H; lia].
  Qed.

  Corollary getitem_int_list keys (arrs : list (list R)) n i :
    arrs <> [] -> Forall (fun a => length a = n) arrs ->
    (mv_getitem (mkSmv keys (LBack (map CArr arrs))) (PyOne (IInt i)) = Err EIndex
     <-> (i < - Z.of_nat n \/ Z.of_nat n <= i)%Z).
  Proof.
    intros Hne Hlen. rewrite (getitem_raises (mkSmv keys (LBack (map CArr arrs)))) by exact I. cbn. split.
    - intros (pre & c & post & cs & Hl & _ & Hc).
      assert (In c (map CArr arrs)) as Hin by (rewrite Hl; apply in_or_app; right; left; reflexivity).
      apply in_map_iff in Hin. destruct Hin as (a & <- & Ha). rewrite Forall_forall in Hlen. specialize (Hlen a Ha).
      cbn in Hc. unfold get_arr in Hc. rewrite Hlen in Hc. cbn in Hc.
      destruct (norm_int n i) as [p|e0] eqn:E; cbn in Hc.
      + pose proof (norm_int_lt _ _ _ E). destruct (in_range_nth a p) as [x Hx]; [lia|]. rewrite Hx in Hc. discriminate.
      + apply norm_int_Err in E. apply E.
    - intro H. destruct arrs as [|a arrs]; [contradiction|]. inversion Hlen; subst.
      exists [], (CArr a), (map CArr arrs), []. repeat split; [constructor|].
      cbn. unfold get_arr. cbn. assert (norm_int (length a) i = Err EIndex) as -> by (apply norm_int_Err; auto). reflexivity.
  Qed.

  (* a slice with a non-zero step never raises on array coefficients *)
  Corollary getitem_slice_total keys (st : store R) s :
    wf_store st -> (exists arrs, st = LBack (map CArr arrs)) \/ (exists n rows, st = Nd2 n rows) ->
    sl_step s <> Some 0%Z -> exists Y, mv_getitem (mkSmv keys st) (PyOne (ISlice s)) = Ok Y.
  Proof.
    intros Hwf Hk Hs.
    destruct (mv_getitem (mkSmv keys st) (PyOne (ISlice s))) as [Y|e] eqn:E; [eauto|exfalso].
    apply (getitem_raises (mkSmv keys st)) in E; [|exact Hwf]. cbn in E.
    assert (forall n, addr_of n [ISlice s] = Err e -> False) as Hno.
    { intros n H. apply addr_of_Err in H. destruct H as [(? & ? & _)|[(s' & [= <-] & _ & H)|[H _]]]; try discriminate; [contradiction | cbn in H; lia]. }
    destruct Hk as [(arrs & ->)|(n & rows & ->)].
    - destruct E as (pre & c & post & cs & Hl & _ & Hc).
      assert (In c (map CArr arrs)) as Hin by (rewrite Hl; apply in_or_app; right; left; reflexivity).
      apply in_map_iff in Hin. destruct Hin as (a & <- & _). cbn in Hc. unfold get_arr in Hc.
      destruct (addr_of (length a) [ISlice s]) as [[p|ps]|e0] eqn:Ea; cbn in Hc.
      + cbn in Ea. destruct (slice_pos (length a) s); discriminate.
      + discriminate.
      + injection Hc as ->. eapply Hno; eassumption.
    - eapply Hno; eassumption.
  Qed.

  (* X[i] on array coefficients IS evaluation at the (normalised) index: the map at_i of the naturality theorem
     (Theory/Natural.v, C16_index_commutes), an array a being the function p |-> nth p a d *)
  Lemma getitem_int_is_evaluation keys (arrs : list (list R)) n i p (d : R) :
    Forall (fun a => length a = n) arrs -> norm_int n i = Ok p ->
    mv_getitem (mkSmv keys (LBack (map CArr arrs))) (PyOne (IInt i))
    = Ok (mkSmv keys (LBack (map (fun a => CNp (nth p a d)) arrs))).
  Proof.
    intros Hlen Hp. unfold mv_getitem. cbn.
    assert (mapM (get_coef [IInt i]) (map CArr arrs) = Ok (map (fun a => CNp (nth p a d)) arrs)) as ->; [|reflexivity].
    apply mapM_Ok. induction Hlen as [|a arrs Ha _ IH]; cbn; constructor; auto.
    unfold get_coef, get_arr, addr_of. rewrite Ha, Hp. cbn. pose proof (norm_int_lt _ _ _ Hp).
    destruct (in_range_nth a p) as [x Hx]; [lia|]. rewrite Hx. cbn. rewrite (nth_error_nth _ _ d Hx). reflexivity.
  Qed.
End Getitem.

(* ================================================================================================
   D. __setitem__ *)
Lemma list_eqb_Z_eq (a b : list Z) : list_eqb Z.eqb a b = true <-> a = b.
Proof.
  revert b. induction a as [|x a IH]; intros [|y b]; cbn; split; try discriminate; auto.
  - intro H. apply andb_true_iff in H. destruct H as [H1 H2]. apply Z.eqb_eq in H1. apply IH in H2. congruence.
  - intros [= -> ->]. rewrite Z.eqb_refl. apply IH. reflexivity.
Qed.

Section Setitem.
  Context {R : Type}.
  Implicit Types (X Y : smv R) (st : store R) (c s o : coef R) (a : list R).

  (* position q of an axis of length n is addressed by the subscript tuple ix *)
  Definition addressed (n : nat) (ix : list idx1) (q : nat) : Prop :=
    exists ad, addr_of n ix = Ok ad /\ match ad with AOne p => q = p | AMany ps => In q ps end.

  Definition is_scalar o (x : R) : Prop := o = CNum x \/ o = CNp x.

  (* what numpy makes of the assigned value on p addressed positions *)
  Lemma bc_coef_spec p o vs :
    bc_coef p o = Ok vs <->
    (exists x, is_scalar o x /\ vs = repeat x p) \/
    (exists l, o = CArr l /\ length l = p /\ vs = l) \/
    (exists x, o = CArr [x] /\ vs = repeat x p).
  Proof.
    destruct o as [x|x|l]; cbn.
    - split.
      + intros [= <-]. left. exists x. split; [left|]; reflexivity.
      + intros [(y & [[= <-]|H] & ->)|[(l & H & _)|(y & H & _)]]; try discriminate. reflexivity.
    - split.
      + intros [= <-]. left. exists x. split; [right|]; reflexivity.
      + intros [(y & [H|[= <-]] & ->)|[(l & H & _)|(y & H & _)]]; try discriminate. reflexivity.
    - unfold bc_row. destruct (Nat.eqb_spec (length l) p) as [E|E].
      + split.
        * intros [= <-]. right; left. eauto.
        * intros [(y & [H|H] & _)|[(l' & [= <-] & _ & ->)|(y & [= ->] & ->)]]; try discriminate; try reflexivity.
          cbn in E. subst p. reflexivity.
      + destruct l as [|x [|y l]]; split; try discriminate.
        * intros [(y & [H|H] & _)|[(l' & [= <-] & H & _)|(y & H & _)]]; try discriminate. contradiction.
        * intros [= <-]. right; right. eauto.
        * intros [(y & [H|H] & _)|[(l' & [= <-] & H & _)|(y & [= ->] & ->)]]; try discriminate; [contradiction | reflexivity].
        * intros [(z & [H|H] & _)|[(l' & [= <-] & H & _)|(z & H & _)]]; try discriminate. contradiction.
  Qed.

  Lemma bc_coef_length p o vs : bc_coef p o = Ok vs -> length vs = p.
  Proof.
    intro H. apply bc_coef_spec in H.
    destruct H as [(x & _ & ->)|[(l & _ & H & ->)|(x & _ & ->)]]; auto using repeat_length.
  Qed.

  (* a[ix] = o, spelled out *)
  Lemma assign_arr_spec ix a o a' :
    assign_arr ix a o = Ok a' <->
    exists ad, addr_of (length a) ix = Ok ad /\
      match ad with
      | AOne p => exists x, is_scalar o x /\ a' = set_nth p x a
      | AMany ps => exists vs, bc_coef (length ps) o = Ok vs /\ a' = write_pos ps vs a
      end.
  Proof.
    unfold assign_arr. destruct (addr_of (length a) ix) as [[p|ps]|e]; cbn.
    - destruct o as [x|x|l]; split; try discriminate.
      + intros [= <-]. exists (AOne p). split; [reflexivity|]. exists x. split; [left|]; reflexivity.
      + intros (ad & [= <-] & y & [[= <-]|H] & ->); [reflexivity | discriminate].
      + intros [= <-]. exists (AOne p). split; [reflexivity|]. exists x. split; [right|]; reflexivity.
      + intros (ad & [= <-] & y & [H|[= <-]] & ->); [discriminate | reflexivity].
      + intros (ad & [= <-] & y & [H|H] & _); discriminate.
    - destruct (bc_coef (length ps) o) as [vs|e] eqn:E; cbn; split; try discriminate.
      + intros [= <-]. exists (AMany ps). split; [reflexivity|]. eauto.
      + intros (ad & Had & H). injection Had as <-. destruct H as (vs' & Hv & ->). congruence.
      + intros (ad & Had & H). injection Had as <-. destruct H as (vs' & Hv & _). congruence.
    - split; [discriminate|]. intros (ad & H & _). discriminate.
  Qed.

  Lemma assign_arr_length ix a o a' : assign_arr ix a o = Ok a' -> length a' = length a.
  Proof.
    intro H. apply assign_arr_spec in H. destruct H as ([p|ps] & _ & H).
    - destruct H as (x & _ & ->). apply set_nth_length.
    - destruct H as (vs & _ & ->). apply write_pos_length.
  Qed.

  (* frame for one array: an entry that is not addressed keeps its value *)
  Lemma assign_arr_frame ix a o a' q :
    assign_arr ix a o = Ok a' -> ~ addressed (length a) ix q -> nth_error a' q = nth_error a q.
  Proof.
    intros H Hq. apply assign_arr_spec in H. destruct H as ([p|ps] & Had & H).
    - destruct H as (x & _ & ->). rewrite nth_error_set_nth.
      destruct (Nat.eqb_spec q p) as [->|]; [|reflexivity]. exfalso. apply Hq. exists (AOne p). auto.
    - destruct H as (vs & _ & ->). apply write_pos_frame. intro Hin. apply Hq. exists (AMany ps). auto.
  Qed.

  (* the successor s' of an entry s under an assignment through ix, whatever was assigned and whether or not it
     raised: a number is untouched, an array keeps its length and every entry that is not addressed *)
  Definition frame_coef (ix : list idx1) s s' : Prop :=
    match s with
    | CArr a => exists a', s' = CArr a' /\ length a' = length a /\
                           forall q, ~ addressed (length a) ix q -> nth_error a' q = nth_error a q
    | _ => s' = s
    end.

  Lemma frame_coef_refl ix s : frame_coef ix s s.
  Proof. destruct s; cbn; eauto. Qed.

  Lemma assign_coef_frame ix s o s' : assign_coef ix s o = Ok s' -> frame_coef ix s s'.
  Proof.
    destruct s as [x|x|a]; cbn; try discriminate.
    destruct (assign_arr ix a o) as [a'|e] eqn:E; cbn; [|discriminate]. intros [= <-].
    exists a'. split; [reflexivity|]. split; [eapply assign_arr_length; eassumption|].
    intros q Hq. eapply assign_arr_frame; eassumption.
  Qed.

  Lemma Forall2_refl_frame ix (l : list (coef R)) : Forall2 (frame_coef ix) l l.
  Proof. induction l; constructor; auto using frame_coef_refl. Qed.

  Lemma set_loop_frame ix l os l' e : set_loop ix l os = (l', e) -> Forall2 (frame_coef ix) l l'.
  Proof.
    revert os l' e. induction l as [|s l IH]; intros os l' e H.
    - cbn in H. injection H as <- <-. constructor.
    - destruct os as [|o os]; cbn in H.
      + injection H as <- <-. apply Forall2_refl_frame.
      + destruct (assign_coef ix s o) as [s'|e0] eqn:E.
        * destruct (set_loop ix l os) as [r e1] eqn:E'. injection H as <- <-.
          constructor; [eapply assign_coef_frame; eassumption | eapply IH; eassumption].
        * injection H as <- <-. apply Forall2_refl_frame.
  Qed.

  (* ---- the loop as a whole ---- *)
  Lemma set_loop_None ix l os l' :
    set_loop ix l os = (l', None) ->
    Forall2 (fun so s' => assign_coef ix (fst so) (snd so) = Ok s') (combine l os) (firstn (length os) l') /\
    skipn (length os) l' = skipn (length os) l /\ length l' = length l.
  Proof.
    revert os l'. induction l as [|s l IH]; intros os l' H.
    - cbn in H. injection H as <-. cbn. rewrite firstn_nil, !skipn_nil. repeat split; try constructor.
    - destruct os as [|o os]; cbn in H.
      + injection H as <-. cbn. repeat split; try constructor.
      + destruct (assign_coef ix s o) as [s'|e0] eqn:E; [|discriminate].
        destruct (set_loop ix l os) as [r e1] eqn:E'. injection H as <- ->.
        destruct (IH _ _ E') as (H1 & H2 & H3). cbn. repeat split; auto; constructor; assumption.
  Qed.

  (* an exception leaves the entries before the failing one assigned, the failing one and the rest untouched *)
  Lemma set_loop_Some ix l os l' e :
    set_loop ix l os = (l', Some e) ->
    exists pre s post preo o posto pre',
      l = pre ++ s :: post /\ os = preo ++ o :: posto /\ l' = pre' ++ s :: post /\
      Forall2 (fun so s' => assign_coef ix (fst so) (snd so) = Ok s') (combine pre preo) pre' /\
      length preo = length pre /\ length pre' = length pre /\ assign_coef ix s o = Err e.
  Proof.
    revert os l'. induction l as [|s l IH]; intros os l' H.
    - cbn in H. discriminate.
    - destruct os as [|o os]; cbn in H; [discriminate|].
      destruct (assign_coef ix s o) as [s'|e0] eqn:E.
      + destruct (set_loop ix l os) as [r e1] eqn:E'. injection H as <- ->.
        destruct (IH _ _ E') as (pre & s0 & post & preo & o0 & posto & pre' & -> & -> & -> & H1 & H2 & H3 & H4).
        exists (s :: pre), s0, post, (o :: preo), o0, posto, (s' :: pre'). cbn. repeat split; auto.
      + injection H as <- <-. exists [], s, l, [], o, os, []. cbn. repeat split; auto.
  Qed.

  (* when one assignment raises, and what *)
  Definition compatible (ad : addr) o : Prop :=
    match ad with
    | AOne _ => exists x, is_scalar o x
    | AMany ps => exists vs, bc_coef (length ps) o = Ok vs
    end.

  Lemma assign_coef_Ok_iff ix s o :
    (exists s', assign_coef ix s o = Ok s') <->
    exists a ad, s = CArr a /\ addr_of (length a) ix = Ok ad /\ compatible ad o.
  Proof.
    split.
    - intros (s' & H). destruct s as [x|x|a]; cbn in H; try discriminate.
      destruct (assign_arr ix a o) as [a'|e] eqn:E; [|discriminate].
      apply assign_arr_spec in E. destruct E as ([p|ps] & Had & Hc); exists a; eexists; repeat split; try eassumption; cbn.
      + destruct Hc as (x & Hx & _). eauto.
      + destruct Hc as (vs & Hv & _). eauto.
    - intros (a & ad & -> & Had & Hc). cbn.
      assert (exists a', assign_arr ix a o = Ok a') as (a' & ->); [|cbn; eauto].
      destruct ad as [p|ps]; cbn in Hc.
      + destruct Hc as (x & Hx). exists (set_nth p x a). apply assign_arr_spec. exists (AOne p). split; eauto.
      + destruct Hc as (vs & Hv). exists (write_pos ps vs a). apply assign_arr_spec. exists (AMany ps). split; eauto.
  Qed.

  Lemma assign_coef_Err ix s o e :
    assign_coef ix s o = Err e ->
    ((forall a, s <> CArr a) /\ e = EType) \/
    (exists a, s = CArr a /\
       (addr_of (length a) ix = Err e \/
        exists ad, addr_of (length a) ix = Ok ad /\ e = EValue /\ ~ compatible ad o)).
  Proof.
    destruct s as [x|x|a]; cbn; try (intros [= <-]; left; split; [intros ? ?; discriminate | reflexivity]).
    unfold assign_arr. intro H. right. exists a. split; [reflexivity|].
    destruct (addr_of (length a) ix) as [[p|ps]|e0]; cbn in H.
    - right. exists (AOne p). split; [reflexivity|]. destruct o as [x|x|l]; try discriminate. injection H as <-.
      split; [reflexivity|]. intros (x & [Hx|Hx]); discriminate.
    - right. exists (AMany ps). split; [reflexivity|].
      destruct (bc_coef (length ps) o) as [vs|e1] eqn:E; cbn in H; [discriminate|]. injection H as <-.
      assert (e1 = EValue) as ->.
      { destruct o as [x|x|l]; cbn in E; try discriminate. unfold bc_row in E.
        destruct (Nat.eqb (length l) (length ps)); [discriminate|]. destruct l as [|? [|? ?]]; congruence. }
      split; [reflexivity|]. intros (vs & Hv). cbn in Hv. congruence.
    - left. congruence.
  Qed.

  (* ---- writing the loop's result back into `_values` ---- *)
  Lemma arrays_of_map (rows : list (list R)) : arrays_of (map CArr rows) = rows.
  Proof.
    induction rows as [|r rows IH]; [reflexivity|].
    change (arrays_of (map CArr (r :: rows))) with (r :: arrays_of (map CArr rows)). rewrite IH. reflexivity.
  Qed.

  Lemma restore_entries st : restore st (entries st) = st.
  Proof. destruct st as [l|v|n rows]; [reflexivity | reflexivity|]. unfold restore, entries. rewrite arrays_of_map. reflexivity. Qed.

  (* the kind of storage, the numbers of a 1-D ndarray and the length of the trailing axis never change *)
  Definition same_kind st st' : Prop :=
    match st, st' with
    | LBack _, LBack _ => True
    | Nd1 v, Nd1 v' => v' = v
    | Nd2 n _, Nd2 n' _ => n' = n
    | _, _ => False
    end.
  Lemma same_kind_refl st : same_kind st st.
  Proof. destruct st; cbn; auto. Qed.

  Lemma frame_restore ix st l' :
    Forall2 (frame_coef ix) (entries st) l' ->
    entries (restore st l') = l' /\ same_kind st (restore st l') /\ (wf_store st -> wf_store (restore st l')).
  Proof.
    destruct st as [l|v|n rows]; cbn; intro H.
    - auto.
    - repeat split; auto. revert l' H. induction v as [|x v IH]; intros l' H; inversion H; subst; cbn; [reflexivity|].
      match goal with Hf : frame_coef _ (CNp _) _ |- _ => cbn in Hf; rewrite Hf end. f_equal. apply IH. assumption.
    - assert (exists rows', l' = map CArr rows' /\ Forall2 (fun r r' => length r' = length r) rows rows') as (rows' & -> & Hlen).
      { revert l' H. induction rows as [|r rows IH]; intros l' H; inversion H; subst.
        - exists []. split; [reflexivity | constructor].
        - match goal with Hf : frame_coef _ (CArr _) _ |- _ => cbn in Hf; destruct Hf as (a' & -> & Hl & _) end.
          match goal with Hf : Forall2 _ (map CArr rows) _ |- _ => destruct (IH _ Hf) as (rows' & -> & Hr) end.
          exists (a' :: rows'). split; [reflexivity | constructor; assumption]. }
      rewrite arrays_of_map. repeat split; auto. intro Hwf. clear H.
      induction Hlen as [|r r' rows rows' Hr _ IH]; [constructor|]. inversion Hwf; subst. constructor; [lia | apply IH; assumption].
  Qed.

  (* FRAME.  Whatever is assigned and whether or not it raises: the keys, the kind of storage, the number of
     coefficients, the length of every coefficient are unchanged, and an entry of a coefficient that the
     subscript does not address keeps its value.  Numbers (python or numpy scalars) never change. *)
  Theorem setitem_frame X item V st' e :
    mv_setitem X item V = (st', e) ->
    Forall2 (frame_coef (norm_item item)) (entries (s_vals X)) (entries st') /\
    same_kind (s_vals X) st' /\ (wf_store (s_vals X) -> wf_store st').
  Proof.
    unfold mv_setitem. intro H.
    assert (Hsame : forall e0, (s_vals X, e0) = (st', e) ->
              Forall2 (frame_coef (norm_item item)) (entries (s_vals X)) (entries st') /\
              same_kind (s_vals X) st' /\ (wf_store (s_vals X) -> wf_store st')).
    { intros e0 [= <- _]. repeat split; auto using Forall2_refl_frame, same_kind_refl. }
    assert (Hloop : forall vst, (let '(l', e0) := set_loop (norm_item item) (entries (s_vals X)) (entries vst) in
                                 (restore (s_vals X) l', e0)) = (st', e) ->
              Forall2 (frame_coef (norm_item item)) (entries (s_vals X)) (entries st') /\
              same_kind (s_vals X) st' /\ (wf_store (s_vals X) -> wf_store st')).
    { intros vst H0. destruct (set_loop _ _ _) as [l' e0] eqn:E. injection H0 as <- <-.
      apply set_loop_frame in E. destruct (frame_restore _ _ _ E) as (H1 & H2 & H3). rewrite H1. auto. }
    destruct V as [ks vst|vst|x].
    - destruct (list_eqb Z.eqb (s_keys X) ks); eauto.
    - eauto.
    - eauto.
  Qed.

  (* a multivector with other keys is refused and nothing changes *)
  Theorem setitem_keys_mismatch X item ks vst :
    ks <> s_keys X -> mv_setitem X item (FromMv ks vst) = (s_vals X, Some EValue).
  Proof.
    intro H. unfold mv_setitem. destruct (list_eqb Z.eqb (s_keys X) ks) eqn:E; [|reflexivity].
    apply list_eqb_Z_eq in E. congruence.
  Qed.

  (* EXACT.  What X[idx] holds after a successful X[idx] = V, coefficient by coefficient *)
  Definition bcast_coef (ad : addr) o : coef R :=
    match ad with
    | AOne _ => match o with CNum x | CNp x => CNp x | CArr _ => o end
    | AMany ps => match bc_coef (length ps) o with Ok vs => CArr vs | Err _ => o end
    end.

  Lemma assign_coef_exact ix s o s' :
    assign_coef ix s o = Ok s' ->
    exists a a' ad, s = CArr a /\ s' = CArr a' /\ length a' = length a /\ addr_of (length a) ix = Ok ad /\
                    get_coef ix s' = Ok (bcast_coef ad o).
  Proof.
    destruct s as [x|x|a]; cbn; try discriminate.
    destruct (assign_arr ix a o) as [a'|e] eqn:E; cbn; [|discriminate]. intros [= <-].
    pose proof (assign_arr_length _ _ _ _ E) as Hlen.
    apply assign_arr_spec in E. destruct E as (ad & Had & Hc).
    exists a, a', ad. repeat split; auto.
    pose proof (addr_of_wf _ _ _ Had) as Hwf.
    unfold get_coef, get_arr. rewrite Hlen, Had. cbn. destruct ad as [p|ps]; cbn in *.
    - destruct Hc as (x & Hx & ->). rewrite nth_error_set_nth, Nat.eqb_refl.
      apply Nat.ltb_lt in Hwf. rewrite Hwf. cbn. destruct Hx as [-> | ->]; reflexivity.
    - destruct Hc as (vs & Hv & ->). destruct Hwf as [Hin Hnd]. rewrite Hv.
      rewrite pick_write; auto. eapply bc_coef_length; eassumption.
  Qed.

  Definition coef_len c : nat := match c with CArr a => length a | _ => 0 end.

  Theorem setitem_exact X item ks vst st' :
    mv_setitem X item (FromMv ks vst) = (st', None) ->
    ks = s_keys X /\
    Forall2 (fun so s' => assign_coef (norm_item item) (fst so) (snd so) = Ok s')
            (combine (entries (s_vals X)) (entries vst)) (firstn (length (entries vst)) (entries st')) /\
    skipn (length (entries vst)) (entries st') = skipn (length (entries vst)) (entries (s_vals X)) /\
    length (entries st') = length (entries (s_vals X)).
  Proof.
    unfold mv_setitem. destruct (list_eqb Z.eqb (s_keys X) ks) eqn:Ek; [|discriminate].
    apply list_eqb_Z_eq in Ek. destruct (set_loop _ _ _) as [l' e0] eqn:E. intros [= <- ->].
    pose proof (set_loop_frame _ _ _ _ _ E) as Hf. destruct (frame_restore _ _ _ Hf) as (-> & _).
    apply set_loop_None in E. split; [congruence | exact E].
  Qed.

  (* the round trip: after a successful X[idx] = V (V a multivector with as many coefficients as X), X[idx]
     holds V's coefficients, each broadcast to the addressed shape of ITS OWN blade *)
  Theorem getitem_setitem X item ks vst st' Y :
    wf_store (s_vals X) -> length (entries vst) = length (entries (s_vals X)) ->
    mv_setitem X item (FromMv ks vst) = (st', None) ->
    mv_getitem (mkSmv (s_keys X) st') item = Ok Y ->
    s_keys Y = s_keys X /\
    Forall2 (fun so y => exists ad, addr_of (coef_len (fst so)) (norm_item item) = Ok ad /\ y = bcast_coef ad (snd so))
            (combine (entries (s_vals X)) (entries vst)) (entries (s_vals Y)).
  Proof.
    intros Hwf Hlen Hset Hget.
    destruct (setitem_frame _ _ _ _ _ Hset) as (_ & _ & Hwf'). specialize (Hwf' Hwf).
    destruct (setitem_exact _ _ _ _ _ Hset) as (_ & Hex & _ & Hlen').
    rewrite Hlen, <- Hlen', firstn_all in Hex.
    destruct (getitem_exact (mkSmv (s_keys X) st') item Y Hwf' Hget) as (Hk & Hg & _). cbn in Hk, Hg.
    split; [exact Hk|].
    revert Hg. generalize (entries (s_vals Y)). clear - Hex.
    induction Hex as [|[s o] s' l l' H _ IH]; intros ys Hg; inversion Hg; subst; constructor; auto.
    cbn in H. destruct (assign_coef_exact _ _ _ _ H) as (a & a' & ad & -> & -> & _ & Had & Hget').
    exists ad. cbn. split; [assumption | congruence].
  Qed.

  Lemma bcast_coef_scalar_one p o x : is_scalar o x -> bcast_coef (AOne p) o = CNp x.
  Proof. intros [-> | ->]; reflexivity. Qed.
  Lemma bcast_coef_scalar_many ps o x : is_scalar o x -> bcast_coef (AMany ps) o = CArr (repeat x (length ps)).
  Proof. intros [-> | ->]; reflexivity. Qed.
  Lemma bcast_coef_aligned ps l : length l = length ps -> bcast_coef (AMany ps) (CArr l) = CArr l.
  Proof. intro H. cbn. unfold bc_row. apply Nat.eqb_eq in H. rewrite H. reflexivity. Qed.

  (* X[idx] = V succeeds iff for every blade the coefficient of X is an array, the subscript is valid for it and
     V's coefficient can be broadcast to the addressed shape *)
  Theorem setitem_succeeds_iff X item vst :
    length (entries vst) = length (entries (s_vals X)) ->
    ((exists st', mv_setitem X item (FromMv (s_keys X) vst) = (st', None)) <->
     Forall (fun so => exists a ad, fst so = CArr a /\ addr_of (length a) (norm_item item) = Ok ad /\ compatible ad (snd so))
            (combine (entries (s_vals X)) (entries vst))).
  Proof.
    intro Hlen. unfold mv_setitem.
    assert (list_eqb Z.eqb (s_keys X) (s_keys X) = true) as -> by (apply list_eqb_Z_eq; reflexivity).
    generalize (restore (s_vals X)). revert Hlen. generalize (entries vst) as os. generalize (entries (s_vals X)) as l.
    intros l os Hlen rst. split.
    - intros (st' & H). destruct (set_loop _ l os) as [l' e0] eqn:E. injection H as _ ->.
      apply set_loop_None in E. destruct E as (E & _).
      clear - E. revert E. generalize (firstn (length os) l'). induction (combine l os) as [|[s o] c IH]; intros l0 E; constructor.
      + inversion E; subst. apply assign_coef_Ok_iff. eauto.
      + inversion E; subst. eapply IH; eassumption.
    - intro H. revert os Hlen H. induction l as [|s l IH]; intros [|o os] Hlen H; try discriminate; cbn.
      + eauto.
      + inversion H as [|? ? Hso H']; subst. apply (proj2 (assign_coef_Ok_iff _ _ _)) in Hso. destruct Hso as (s' & Hs'). cbn in Hs'. rewrite Hs'.
        cbn in Hlen. destruct (IH os ltac:(lia) H') as (st' & E).
        destruct (set_loop _ l os) as [r e1]. injection E as _ ->. eauto.
  Qed.

  (* assigning what was read changes nothing *)
  Theorem setitem_of_getitem X item Y :
    Forall (fun c => exists a, c = CArr a) (entries (s_vals X)) ->
    mv_getitem X item = Ok Y -> wf_store (s_vals X) ->
    mv_setitem X item (FromMv (s_keys X) (s_vals Y)) = (s_vals X, None).
  Proof.
    intros Harr Hget Hwf. destruct (getitem_exact _ _ _ Hwf Hget) as (_ & Hg & _).
    unfold mv_setitem.
    assert (list_eqb Z.eqb (s_keys X) (s_keys X) = true) as -> by (apply list_eqb_Z_eq; reflexivity).
    assert (set_loop (norm_item item) (entries (s_vals X)) (entries (s_vals Y)) = (entries (s_vals X), None)) as ->.
    { revert Harr Hg. generalize (entries (s_vals Y)) as ys. generalize (entries (s_vals X)) as l.
      induction l as [|s l IH]; intros ys Harr Hg; inversion Hg; subst; [reflexivity|].
      inversion Harr as [|? ? (a & ->) Harr']; subst. cbn [set_loop].
      match goal with Hc : get_coef _ (CArr a) = Ok ?y |- _ => rename Hc into Hy end.
      assert (assign_coef (norm_item item) (CArr a) y = Ok (CArr a)) as ->.
      { apply get_coef_spec in Hy. destruct Hy as (ad & Had & Hc). cbn.
        assert (assign_arr (norm_item item) a y = Ok a) as ->; [|reflexivity].
        apply assign_arr_spec. exists ad. split; [assumption|].
        pose proof (addr_of_wf _ _ _ Had) as Hw. destruct ad as [p|ps]; cbn in Hw.
        - destruct Hc as (x & Hx & ->). exists x. split; [right; reflexivity | symmetry; apply set_nth_same; assumption].
        - subst y. destruct Hw as [Hin _]. exists (pick ps a). split.
          + cbn. unfold bc_row. rewrite (pick_length _ _ Hin), Nat.eqb_refl. reflexivity.
          + symmetry. apply write_pick. assumption. }
      rewrite IH by assumption. reflexivity. }
    rewrite restore_entries. reflexivity.
  Qed.

  (* ---- the two readings of the round trip ---- *)
  Lemma Forall2_combine_map {A B C} (g : B -> C) (E : list A) (V : list B) (Ys : list C) :
    length V = length E -> Forall2 (fun so y => y = g (snd so)) (combine E V) Ys -> Ys = map g V.
  Proof.
    revert V Ys. induction E as [|e E IH]; intros [|v V] Ys Hlen H; try discriminate; cbn in *.
    - inversion H. reflexivity.
    - inversion H; subst. f_equal. apply IH; auto.
  Qed.

  Lemma Forall2_impl_Forall {A B} (P P' : A -> B -> Prop) (Q : A -> Prop) l l' :
    Forall2 P l l' -> Forall Q l -> (forall u v, P u v -> Q u -> P' u v) -> Forall2 P' l l'.
  Proof.
    intros H HQ Himp. induction H; constructor; inversion HQ; subst; auto.
  Qed.

  (* V's coefficients have the addressed shape (a number for an integer subscript, an array of the addressed
     length for a slice): X[idx] afterwards holds exactly V's coefficients *)
  Definition np_of o : coef R := match o with CNum x => CNp x | _ => o end.
  Definition aligned (ad : addr) o : Prop :=
    match ad with
    | AOne _ => exists x, is_scalar o x
    | AMany ps => exists l, o = CArr l /\ length l = length ps
    end.

  Lemma bcast_coef_of_aligned ad o : aligned ad o -> bcast_coef ad o = np_of o.
  Proof.
    destruct ad as [p|ps].
    - cbn. intros (x & [-> | ->]); reflexivity.
    - intros (l & -> & H). rewrite bcast_coef_aligned by exact H. reflexivity.
  Qed.

  Corollary getitem_setitem_aligned X item ks vst st' Y :
    wf_store (s_vals X) -> length (entries vst) = length (entries (s_vals X)) ->
    Forall (fun so => forall ad, addr_of (coef_len (fst so)) (norm_item item) = Ok ad -> aligned ad (snd so))
           (combine (entries (s_vals X)) (entries vst)) ->
    mv_setitem X item (FromMv ks vst) = (st', None) ->
    mv_getitem (mkSmv (s_keys X) st') item = Ok Y ->
    s_keys Y = s_keys X /\ entries (s_vals Y) = map np_of (entries vst).
  Proof.
    intros Hwf Hlen Hal Hset Hget.
    destruct (getitem_setitem _ _ _ _ _ _ Hwf Hlen Hset Hget) as (Hk & H). split; [exact Hk|].
    apply Forall2_combine_map with (E := entries (s_vals X)); [exact Hlen|].
    eapply Forall2_impl_Forall; [exact H | exact Hal|].
    intros so y (ad & Had & ->) Ha. apply bcast_coef_of_aligned. apply Ha. exact Had.
  Qed.

  (* V's coefficients are numbers: every blade receives ITS OWN number on every addressed entry -- for list
     storage and for ndarray storage alike (the finding fixed in kingdon 76adadb: the 2-D ndarray used to be
     assigned in one numpy statement, which broadcast V's numbers along the BLADE axis) *)
  Corollary setitem_scalar_broadcast X item ks vst st' Y :
    wf_store (s_vals X) -> length (entries vst) = length (entries (s_vals X)) ->
    Forall (fun o => exists x, is_scalar o x) (entries vst) ->
    mv_setitem X item (FromMv ks vst) = (st', None) ->
    mv_getitem (mkSmv (s_keys X) st') item = Ok Y ->
    Forall2 (fun so y => exists ad x, addr_of (coef_len (fst so)) (norm_item item) = Ok ad /\ is_scalar (snd so) x /\
                         y = match ad with AOne _ => CNp x | AMany ps => CArr (repeat x (length ps)) end)
            (combine (entries (s_vals X)) (entries vst)) (entries (s_vals Y)).
  Proof.
    intros Hwf Hlen Hsc Hset Hget.
    destruct (getitem_setitem _ _ _ _ _ _ Hwf Hlen Hset Hget) as (_ & H).
    eapply Forall2_impl_Forall with (Q := fun so => exists x, is_scalar (snd so) x); [exact H| |].
    - apply Forall_forall. intros [s o] Hin. apply in_combine_r in Hin. rewrite Forall_forall in Hsc. exact (Hsc o Hin).
    - intros so y (ad & Had & ->) (x & Hx). exists ad, x. repeat split; auto.
      destruct ad; [apply bcast_coef_scalar_one | apply bcast_coef_scalar_many]; exact Hx.
  Qed.
End Setitem.

(* ================================================================================================
   E. operands of a binary operator *)
Section Operands.
  Context {R : Type}.
  Variable self_alg : nat.
  Variable f : mv R -> mv R -> res (mv R).

  Lemma operand_ind' (P : operand R -> Prop) :
    (forall c, P (ONum c)) -> (forall a m, P (OMv a m)) ->
    (forall l, Forall P l -> P (OSeq l)) -> (forall l, Forall P l -> P (OTup l)) ->
    (forall o, P o -> P (OCall o)) -> forall o, P o.
  Proof.
    intros Hn Hm Hs Ht Hc.
    refine (fix go (o : operand R) : P o :=
              match o with
              | ONum c => Hn c
              | OMv a m => Hm a m
              | OSeq l => Hs l ((fix gl (l : list (operand R)) : Forall P l :=
                                   match l with [] => Forall_nil _ | x :: r => Forall_cons _ (go x) (gl r) end) l)
              | OTup l => Ht l ((fix gl (l : list (operand R)) : Forall P l :=
                                   match l with [] => Forall_nil _ | x :: r => Forall_cons _ (go x) (gl r) end) l)
              | OCall o' => Hc o' (go o')
              end).
  Qed.

  (* ---- the specification: what `left op right` must be, without fuel ---- *)
  (* the value of an operand: callables replaced by what they return, numbers by the scalar multivector of the
     operator's algebra *)
  Inductive tree := TLeaf (a : nat) (m : mv R) | TNode (tup : bool) (l : list tree).
  Fixpoint denote (o : operand R) : tree :=
    match o with
    | ONum c => TLeaf self_alg [(0%Z, c)]
    | OMv a m => TLeaf a m
    | OSeq l => TNode false (map denote l)
    | OTup l => TNode true (map denote l)
    | OCall o' => denote o'
    end.
  Definition mk (tup : bool) (l : list (result R)) : result R := if tup then RTup l else RSeq l.
  (* two multivectors: algebra check, then the operator on (left, right) IN THIS ORDER *)
  Definition apply_leaf (a1 : nat) (m1 : mv R) (a2 : nat) (m2 : mv R) : res (result R) :=
    if Nat.eqb a1 a2 then m <- f m1 m2 ;; Ok (RMv m) else Err EAlgebra.
  (* the right operand is a multivector: a sequence on the left is mapped, element by element, in order *)
  Fixpoint evalL (l : tree) (b : nat) (mb : mv R) : res (result R) :=
    match l with
    | TLeaf a m => apply_leaf a m b mb
    | TNode k xs => s <- mapM (fun x => evalL x b mb) xs ;; Ok (mk k s)
    end.
  (* a sequence on the right is mapped first (the outer shape of the result is the shape of the right operand) *)
  Fixpoint eval_tree (l r : tree) {struct r} : res (result R) :=
    match r with
    | TLeaf b mb => evalL l b mb
    | TNode k xs => s <- mapM (fun x => eval_tree l x) xs ;; Ok (mk k s)
    end.

  Lemma osize_pos (o : operand R) : 0 < osize o.
  Proof. destruct o; cbn; lia. Qed.

  Lemma osize_in_sum (x : operand R) (l : list (operand R)) :
    In x l -> osize x <= (fix go (l : list (operand R)) := match l with [] => 0 | x :: r => osize x + go r end) l.
  Proof.
    induction l as [|y l IH]; [intros []|]. intros [<-|H]; [lia|]. specialize (IH H). lia.
  Qed.
  Lemma osize_in_seq (x : operand R) l : In x l -> osize x < osize (OSeq l).
  Proof. intro H. apply osize_in_sum in H. cbn. lia. Qed.
  Lemma osize_in_tup (x : operand R) l : In x l -> osize x < osize (OTup l).
  Proof. intro H. apply osize_in_sum in H. cbn. lia. Qed.

  (* MAIN: with enough fuel, _call_binary computes the specification, for ALL operands *)
  Theorem call_binary_spec n l r :
    osize l + osize r < n -> call_binary self_alg f n l r = eval_tree (denote l) (denote r).
  Proof.
    revert l r. induction n as [|n IH]; intros l r Hn; [lia|].
    assert (Hr : forall k xs, (forall x, In x xs -> osize l + osize x < n) ->
                  (s <- mapM (fun x => call_binary self_alg f n l x) xs ;; Ok (mk k s))
                  = eval_tree (denote l) (TNode k (map denote xs))).
    { intros k xs Hxs. cbn [eval_tree]. rewrite mapM_map.
      rewrite (mapM_ext_in _ (fun x => eval_tree (denote l) (denote x))); [reflexivity|].
      intros x Hx. apply IH, Hxs, Hx. }
    assert (Hl : forall k xs b mb, denote r = TLeaf b mb -> (forall x, In x xs -> osize x + osize r < n) ->
                  (s <- mapM (fun x => call_binary self_alg f n x r) xs ;; Ok (mk k s))
                  = eval_tree (TNode k (map denote xs)) (denote r)).
    { intros k xs b mb Hb Hxs. rewrite Hb. cbn [eval_tree evalL]. rewrite mapM_map.
      rewrite (mapM_ext_in _ (fun x => evalL (denote x) b mb)); [reflexivity|].
      intros x Hx. rewrite IH by (apply Hxs, Hx). rewrite Hb. reflexivity. }
    assert (HrS : forall ys, osize l + osize (OSeq ys) < S n ->
                  (s <- mapM (fun x => call_binary self_alg f n l x) ys ;; Ok (RSeq s)) = eval_tree (denote l) (denote (OSeq ys))).
    { intros ys Hs. apply (Hr false). intros x Hx. apply osize_in_seq in Hx. lia. }
    assert (HrT : forall ys, osize l + osize (OTup ys) < S n ->
                  (s <- mapM (fun x => call_binary self_alg f n l x) ys ;; Ok (RTup s)) = eval_tree (denote l) (denote (OTup ys))).
    { intros ys Hs. apply (Hr true). intros x Hx. apply osize_in_tup in Hx. lia. }
    assert (HlS : forall xs b mb, denote r = TLeaf b mb -> osize (OSeq xs) + osize r < S n ->
                  (s <- mapM (fun x => call_binary self_alg f n x r) xs ;; Ok (RSeq s)) = eval_tree (denote (OSeq xs)) (denote r)).
    { intros xs b mb Hb Hs. apply (Hl false xs b mb Hb). intros x Hx. apply osize_in_seq in Hx. lia. }
    assert (HlT : forall xs b mb, denote r = TLeaf b mb -> osize (OTup xs) + osize r < S n ->
                  (s <- mapM (fun x => call_binary self_alg f n x r) xs ;; Ok (RTup s)) = eval_tree (denote (OTup xs)) (denote r)).
    { intros xs b mb Hb Hs. apply (Hl true xs b mb Hb). intros x Hx. apply osize_in_tup in Hx. lia. }
    assert (HcL : forall l', l = OCall l' -> call_binary self_alg f n l' r = eval_tree (denote l) (denote r)).
    { intros l' ->. cbn [denote]. apply IH. cbn in Hn. lia. }
    assert (HcR : forall r', r = OCall r' -> call_binary self_alg f n l r' = eval_tree (denote l) (denote r)).
    { intros r' ->. cbn [denote]. apply IH. cbn in Hn. lia. }
    clear Hr Hl IH.
    destruct l as [c|a m|xs|xs|l']; [| | | |exact (HcL l' eq_refl)];
      (destruct r as [c'|a' m'|ys|ys|r']; [| |exact (HrS ys Hn)|exact (HrT ys Hn)|exact (HcR r' eq_refl)]);
      try reflexivity;
      first [ exact (HlS xs _ _ eq_refl Hn) | exact (HlT xs _ _ eq_refl Hn) ].
  Qed.

  Corollary call_binary_total_spec l r :
    call_binary_total self_alg f l r = eval_tree (denote l) (denote r).
  Proof. unfold call_binary_total. apply call_binary_spec. lia. Qed.

  (* fuel is irrelevant above the bound: the while loops and the recursion terminate, EFuel does not occur *)
  Corollary call_binary_fuel n l r :
    osize l + osize r < n -> call_binary self_alg f n l r = call_binary_total self_alg f l r.
  Proof. intro H. rewrite call_binary_total_spec. apply call_binary_spec, H. Qed.

  Local Notation ev := (call_binary_total self_alg f).

  (* a plain number on either side behaves as the scalar multivector [(0, c)] of the operator's algebra *)
  Theorem scalar_wrap_left c r : ev (ONum c) r = ev (OMv self_alg [(0%Z, c)]) r.
  Proof. rewrite !call_binary_total_spec. reflexivity. Qed.
  Theorem scalar_wrap_right l c : ev l (ONum c) = ev l (OMv self_alg [(0%Z, c)]).
  Proof. rewrite !call_binary_total_spec. reflexivity. Qed.

  (* two multivectors: the operator is applied to (left, right), in this order *)
  Theorem leaves_in_order a x y : ev (OMv a x) (OMv a y) = (m <- f x y ;; Ok (RMv m)).
  Proof. rewrite call_binary_total_spec. cbn. unfold apply_leaf. rewrite Nat.eqb_refl. reflexivity. Qed.
  Theorem algebra_check a b x y : a <> b -> ev (OMv a x) (OMv b y) = Err EAlgebra.
  Proof.
    intro H. rewrite call_binary_total_spec. cbn. unfold apply_leaf.
    apply Nat.eqb_neq in H. rewrite H. reflexivity.
  Qed.

  (* a list / tuple on the right: the list / tuple of `left op element`, in order, whatever the left operand is *)
  Theorem seq_maps_right l xs : ev l (OSeq xs) = (s <- mapM (fun x => ev l x) xs ;; Ok (RSeq s)).
  Proof.
    rewrite call_binary_total_spec. cbn [denote eval_tree]. rewrite mapM_map.
    rewrite (mapM_ext_in _ (fun x => ev l x)); [reflexivity|]. intros x _. symmetry. apply call_binary_total_spec.
  Qed.
  Theorem tup_maps_right l xs : ev l (OTup xs) = (s <- mapM (fun x => ev l x) xs ;; Ok (RTup s)).
  Proof.
    rewrite call_binary_total_spec. cbn [denote eval_tree]. rewrite mapM_map.
    rewrite (mapM_ext_in _ (fun x => ev l x)); [reflexivity|]. intros x _. symmetry. apply call_binary_total_spec.
  Qed.

  (* a list / tuple on the left of something whose value is a multivector (a multivector, a number, or a callable
     returning one): the list / tuple of `element op right`, in order, the right operand staying on the right *)
  Definition atomic (o : operand R) : Prop := exists b mb, denote o = TLeaf b mb.
  Theorem seq_maps_left xs r : atomic r -> ev (OSeq xs) r = (s <- mapM (fun x => ev x r) xs ;; Ok (RSeq s)).
  Proof.
    intros (b & mb & Hb). rewrite call_binary_total_spec. cbn [denote]. rewrite Hb. cbn [eval_tree evalL]. rewrite mapM_map.
    rewrite (mapM_ext_in _ (fun x => ev x r)); [reflexivity|].
    intros x _. rewrite call_binary_total_spec, Hb. reflexivity.
  Qed.
  Theorem tup_maps_left xs r : atomic r -> ev (OTup xs) r = (s <- mapM (fun x => ev x r) xs ;; Ok (RTup s)).
  Proof.
    intros (b & mb & Hb). rewrite call_binary_total_spec. cbn [denote]. rewrite Hb. cbn [eval_tree evalL]. rewrite mapM_map.
    rewrite (mapM_ext_in _ (fun x => ev x r)); [reflexivity|].
    intros x _. rewrite call_binary_total_spec, Hb. reflexivity.
  Qed.

  (* [x, y] op z = [x op z, y op z]   and   z op [x, y] = [z op x, z op y] *)
  Corollary seq_left_two a x y z :
    ev (OSeq [OMv a x; OMv a y]) (OMv a z) = (u <- f x z ;; v <- f y z ;; Ok (RSeq [RMv u; RMv v])).
  Proof.
    rewrite seq_maps_left by (exists a, z; reflexivity). cbn [mapM]. rewrite !leaves_in_order.
    destruct (f x z); cbn; [|reflexivity]. destruct (f y z); reflexivity.
  Qed.
  Corollary seq_right_two a x y z :
    ev (OMv a z) (OSeq [OMv a x; OMv a y]) = (u <- f z x ;; v <- f z y ;; Ok (RSeq [RMv u; RMv v])).
  Proof.
    rewrite seq_maps_right. cbn [mapM]. rewrite !leaves_in_order.
    destruct (f z x); cbn; [|reflexivity]. destruct (f z y); reflexivity.
  Qed.

  (* zero-argument callables are called until something that is not callable appears, on either side, any depth *)
  Fixpoint ncall (k : nat) (o : operand R) : operand R := match k with O => o | S k' => OCall (ncall k' o) end.
  Lemma denote_ncall k o : denote (ncall k o) = denote o.
  Proof. induction k; cbn; auto. Qed.
  Theorem callable_unwrap j k l r : ev (ncall j l) (ncall k r) = ev l r.
  Proof. rewrite !call_binary_total_spec, !denote_ncall. reflexivity. Qed.
  Corollary callable_unwrap_left l r : ev (OCall l) r = ev l r.
  Proof. exact (callable_unwrap 1 0 l r). Qed.
  Corollary callable_unwrap_right l r : ev l (OCall r) = ev l r.
  Proof. exact (callable_unwrap 0 1 l r). Qed.

  (* composition: operands with the same value give the same result -- a list of callables returning numbers
     is a list of scalar multivectors, etc. *)
  Theorem same_value_same_result l l' r r' : denote l = denote l' -> denote r = denote r' -> ev l r = ev l' r'.
  Proof. intros Hl Hr. rewrite !call_binary_total_spec, Hl, Hr. reflexivity. Qed.

  (* the exception of a sequence is the exception of its first failing element *)
  Theorem seq_right_raises l xs e :
    ev l (OSeq xs) = Err e <->
    exists pre x post rs, xs = pre ++ x :: post /\ Forall2 (fun a b => ev l a = Ok b) pre rs /\ ev l x = Err e.
  Proof.
    rewrite seq_maps_right. destruct (mapM (fun x => ev l x) xs) as [s|e0] eqn:E; cbn.
    - split; [discriminate|]. intro H. apply (proj2 (mapM_Err (fun x => ev l x) xs e)) in H. congruence.
    - rewrite <- (mapM_Err (fun x => ev l x) xs e). rewrite E. split; congruence.
  Qed.

  (* the unary operators unwrap nothing; OperatorDict.__call__ with two operands is _call_binary *)
  Lemma call_unary_mv g a m : call_unary (R := R) g (OMv a m) = (m' <- g m ;; Ok (RMv m')).
  Proof. reflexivity. Qed.
  Lemma call_unary_other g o : (forall a m, o <> OMv a m) -> call_unary (R := R) g o = Err EAttr.
  Proof. destruct o; intro H; try reflexivity. exfalso. eapply H. reflexivity. Qed.
  Lemma call_op_two n g l r : call_op self_alg f n g [l; r] = call_binary self_alg f n l r.
  Proof. reflexivity. Qed.
End Operands.

(* the clauses of the property, as single statements *)
Theorem scalar_wrap {R} (self_alg : nat) (f : mv R -> mv R -> res (mv R)) (c : R) (o : operand R) :
  call_binary_total self_alg f (ONum c) o = call_binary_total self_alg f (OMv self_alg [(0%Z, c)]) o /\
  call_binary_total self_alg f o (ONum c) = call_binary_total self_alg f o (OMv self_alg [(0%Z, c)]).
Proof. split; [apply scalar_wrap_left | apply scalar_wrap_right]. Qed.

Theorem seq_maps {R} (self_alg : nat) (f : mv R -> mv R -> res (mv R)) (xs : list (operand R)) (o : operand R) :
  let ev := call_binary_total self_alg f in
  (* on the right, whatever the left operand is *)
  ev o (OSeq xs) = (s <- mapM (fun x => ev o x) xs ;; Ok (RSeq s)) /\
  ev o (OTup xs) = (s <- mapM (fun x => ev o x) xs ;; Ok (RTup s)) /\
  (* on the left of a multivector / number / callable returning one: the other operand stays on the right *)
  (atomic self_alg o ->
   ev (OSeq xs) o = (s <- mapM (fun x => ev x o) xs ;; Ok (RSeq s)) /\
   ev (OTup xs) o = (s <- mapM (fun x => ev x o) xs ;; Ok (RTup s))).
Proof.
  cbv zeta. repeat split; [apply seq_maps_right | apply tup_maps_right | apply seq_maps_left | apply tup_maps_left]; assumption.
Qed.

Theorem operand_order {R} (self_alg : nat) (f : mv R -> mv R -> res (mv R)) (a : nat) (x y z : mv R) :
  let ev := call_binary_total self_alg f in
  ev (OMv a x) (OMv a y) = (m <- f x y ;; Ok (RMv m)) /\
  ev (OSeq [OMv a x; OMv a y]) (OMv a z) = (u <- f x z ;; v <- f y z ;; Ok (RSeq [RMv u; RMv v])) /\
  ev (OMv a z) (OSeq [OMv a x; OMv a y]) = (u <- f z x ;; v <- f z y ;; Ok (RSeq [RMv u; RMv v])).
Proof. cbv zeta. repeat split; [apply leaves_in_order | apply seq_left_two | apply seq_right_two]. Qed.

(* ================================================================================================
   F. non-vacuity: the statements above on concrete data (Z coefficients) *)
Section Examples.
  Local Open Scope Z_scope.
  Let sl a b c := ISlice (mkSlice a b c).

  (* subscripts *)
  Example ex_slice_neg_start : slice_pos 5 (mkSlice (Some (-2)) None None) = Ok [3; 4]%nat.
  Proof. reflexivity. Qed.
  Example ex_slice_neg_step : slice_pos 5 (mkSlice None None (Some (-2))) = Ok [4; 2; 0]%nat.
  Proof. reflexivity. Qed.
  Example ex_slice_clipped : slice_pos 3 (mkSlice (Some (-10)) (Some 10) None) = Ok [0; 1; 2]%nat.
  Proof. reflexivity. Qed.
  Example ex_slice_zero_step : slice_pos 3 (mkSlice None None (Some 0)) = Err EValue.
  Proof. reflexivity. Qed.

  (* two blades, three points, both storage kinds *)
  Let Xl : smv Z := mkSmv [1; 2] (LBack [CArr [10; 11; 12]; CArr [20; 21; 22]]).
  Let Xn : smv Z := mkSmv [1; 2] (Nd2 3 [[10; 11; 12]; [20; 21; 22]]).

  Example ex_get_neg_int :
    mv_getitem Xl (PyOne (IInt (-1))) = Ok (mkSmv [1; 2] (LBack [CNp 12; CNp 22])) /\
    mv_getitem Xn (PyOne (IInt (-1))) = Ok (mkSmv [1; 2] (Nd1 [12; 22])).
  Proof. split; reflexivity. Qed.
  Example ex_get_slice :
    mv_getitem Xl (PyOne (sl None None (Some (-1)))) = Ok (mkSmv [1; 2] (LBack [CArr [12; 11; 10]; CArr [22; 21; 20]])) /\
    mv_getitem Xn (PyTup [sl (Some 1) None None]) = Ok (mkSmv [1; 2] (Nd2 2 [[11; 12]; [21; 22]])).
  Proof. split; reflexivity. Qed.
  Example ex_get_raises :
    mv_getitem Xl (PyOne (IInt 3)) = Err EIndex /\ mv_getitem Xn (PyOne (IInt (-4))) = Err EIndex /\
    mv_getitem Xn (PyTup [IInt 0; IInt 0]) = Err EIndex /\
    mv_getitem Xn (PyOne (sl None None (Some 0))) = Err EValue /\
    mv_getitem (mkSmv [1; 2] (LBack [CArr [1; 2]; CNum 5])) (PyOne (IInt 0)) = Err EType /\
    (* ragged list storage: the first coefficient for which the subscript fails decides *)
    mv_getitem (mkSmv [1; 2] (LBack [CArr [1; 2; 3]; CArr [4]])) (PyOne (IInt 2)) = Err EIndex /\
    (* a multivector without keys: list storage never raises, ndarray storage checks the trailing axis *)
    mv_getitem (mkSmv [] (LBack [])) (PyOne (IInt 7)) = Ok (mkSmv [] (LBack ([] : list (coef Z)))) /\
    mv_getitem (mkSmv [] (Nd2 3 ([] : list (list Z)))) (PyOne (IInt 7)) = Err EIndex.
  Proof. repeat split; reflexivity. Qed.

  (* assignment: exactly the addressed entries, for both storage kinds *)
  Let V : rhs Z := FromMv [1; 2] (LBack [CArr [7; 8]; CArr [9; 6]]).
  Example ex_set_slice :
    mv_setitem Xl (PyOne (sl (Some 1) None None)) V = (LBack [CArr [10; 7; 8]; CArr [20; 9; 6]], None) /\
    mv_setitem Xn (PyOne (sl (Some 1) None None)) V = (Nd2 3 [[10; 7; 8]; [20; 9; 6]], None) /\
    mv_setitem Xn (PyOne (sl None None (Some (-2)))) V = (Nd2 3 [[8; 11; 7]; [6; 21; 9]], None).
  Proof. repeat split; reflexivity. Qed.
  (* the fixed finding: number coefficients are broadcast blade by blade, for both storage kinds *)
  Example ex_set_scalar_broadcast :
    let W := FromMv [1; 2] (LBack [CNum 7; CNum 8]) in
    mv_setitem Xl (PyOne (sl None None None)) W = (LBack [CArr [7; 7; 7]; CArr [8; 8; 8]], None) /\
    mv_setitem Xn (PyOne (sl None None None)) W = (Nd2 3 [[7; 7; 7]; [8; 8; 8]], None) /\
    mv_setitem Xn (PyOne (IInt 0)) W = (Nd2 3 [[7; 11; 12]; [8; 21; 22]], None) /\
    mv_setitem Xn (PyTup []) (FromMv [1; 2] (Nd1 [7; 8])) = (Nd2 3 [[7; 7; 7]; [8; 8; 8]], None).
  Proof. repeat split; reflexivity. Qed.
  Example ex_set_raises :
    (* other keys: ValueError, nothing changes *)
    mv_setitem Xn (PyOne (IInt 0)) (FromMv [2; 1] (Nd1 [7; 8])) = (s_vals Xn, Some EValue) /\
    (* the second coefficient is too short: IndexError, the first one stays assigned *)
    mv_setitem (mkSmv [1; 2] (LBack [CArr [1; 2; 3]; CArr [4]])) (PyOne (IInt 2)) (FromMv [1; 2] (Nd1 [7; 8]))
      = (LBack [CArr [1; 2; 7]; CArr [4]], Some EIndex) /\
    (* a shape that cannot be broadcast: ValueError *)
    mv_setitem Xn (PyOne (sl None None None)) (FromMv [1; 2] (Nd2 2 [[1; 2]; [3; 4]])) = (s_vals Xn, Some EValue) /\
    (* a plain number is not iterable; the numbers of a 1-D ndarray cannot be assigned into *)
    mv_setitem Xn (PyOne (IInt 0)) (FromNum 5) = (s_vals Xn, Some EType) /\
    mv_setitem (mkSmv [1; 2] (Nd1 [3; 4])) (PyTup []) (FromMv [1; 2] (Nd1 [7; 8])) = (Nd1 [3; 4], Some EType) /\
    (* no key: nothing to do, no exception *)
    mv_setitem (mkSmv [] (Nd2 3 ([] : list (list Z)))) (PyOne (sl None None None)) (FromMv [] (LBack [])) = (Nd2 3 [], None).
  Proof. repeat split; reflexivity. Qed.
  (* the hypotheses of the round-trip theorems hold on this data *)
  Example ex_round_trip_hyps :
    wf_store (s_vals Xn) /\
    Forall (fun so => forall ad, addr_of (coef_len (fst so)) [sl (Some 1) None None] = Ok ad -> aligned ad (snd so))
           (combine (entries (s_vals Xn)) (entries (LBack [CArr [7; 8]; CArr [9; 6]]))).
  Proof.
    split; [repeat constructor|].
    repeat constructor; cbn; intros ad [= <-]; eexists; split; reflexivity.
  Qed.
  Example ex_shape_itermv :
    mv_shape Xl = [2; 3]%nat /\ mv_shape Xn = [2; 3]%nat /\ mv_shape (mkSmv [1] (LBack [CNum 5])) = [1]%nat /\
    mv_shape (mkSmv [] (LBack ([] : list (coef Z)))) = [0]%nat /\
    mv_itermv Xn true = ItGen [Ok (mkSmv [1; 2] (Nd1 [10; 20])); Ok (mkSmv [1; 2] (Nd1 [11; 21])); Ok (mkSmv [1; 2] (Nd1 [12; 22]))] /\
    mv_itermv Xn false = ItErr ENotImpl /\
    mv_itermv (mkSmv [1] (Nd1 [5])) false = ItSelf (mkSmv [1] (Nd1 [5])).
  Proof. repeat split; reflexivity. Qed.

  (* operands: a visibly non-commutative operator (concatenation of the stored pairs) *)
  Let cat (x y : mv Z) : res (mv Z) := Ok (x ++ y).
  Let x : mv Z := [(1, 1)]. Let y : mv Z := [(2, 2)]. Let z : mv Z := [(3, 3)].
  Let ev := call_binary_total 0%nat cat.
  Example ex_seq_left : ev (OSeq [OMv 0 x; OMv 0 y]) (OMv 0 z) = Ok (RSeq [RMv (x ++ z); RMv (y ++ z)]).
  Proof. reflexivity. Qed.
  Example ex_tup_right : ev (OMv 0 z) (OTup [OMv 0 x; OMv 0 y]) = Ok (RTup [RMv (z ++ x); RMv (z ++ y)]).
  Proof. reflexivity. Qed.
  Example ex_number_and_callables :
    ev (OCall (OCall (ONum 5))) (OCall (OMv 0 z)) = Ok (RMv ([(0, 5)] ++ z)) /\
    ev (OMv 0 z) (OSeq [OCall (ONum 5); OTup [OMv 0 x]]) = Ok (RSeq [RMv (z ++ [(0, 5)]); RTup [RMv (z ++ x)]]).
  Proof. split; reflexivity. Qed.
  (* sequences on both sides: the outer shape is the one of the RIGHT operand *)
  Example ex_both_sides :
    ev (OSeq [OMv 0 x; OMv 0 y]) (OTup [OMv 0 z; ONum 4])
    = Ok (RTup [RSeq [RMv (x ++ z); RMv (y ++ z)]; RSeq [RMv (x ++ [(0, 4)]); RMv (y ++ [(0, 4)])]]).
  Proof. reflexivity. Qed.
  Example ex_algebra_error : ev (OSeq [OMv 0 x; OMv 1 y]) (OMv 0 z) = Err EAlgebra /\ ev (OMv 1 x) (OMv 1 y) = Ok (RMv (x ++ y)).
  Proof. split; reflexivity. Qed.
  Example ex_fuel : call_binary 0%nat cat 3 (OCall (OCall (OCall (ONum 5)))) (OMv 0 z) = Err EFuel /\
                    call_binary 0%nat cat 5 (OCall (OCall (OCall (ONum 5)))) (OMv 0 z) = Ok (RMv ([(0, 5)] ++ z)).
  Proof. split; reflexivity. Qed.
End Examples.
