(* Theory/Universal.v — the universal property of kingdon's sign table (C18, stage 1; pure algebra).

   Let A be ANY well-formed algebra (wf_alg A = true: every dimension, signature ordering, start index,
   default or custom basis) and let (T, mul, one, zsc) be any associative unital structure with an
   action of the integers, given on a carrier predicate [ok] (for matrices: "is an n x n matrix").
   If elements g c (c a generator letter of A) satisfy the Clifford relations
        g c * g c = metric(c) . one,            g c * g e = - g e * g c   (c <> e)
   then the ordered products   blade I := g c1 * g c2 * ... * g ck   along the table's own spelling
   c1 c2 .. ck = nm A I of every key multiply EXACTLY like the sign table says:

        universal_hom :  blade I * blade J = sgn A I J . blade (I xor J)       (all keys in range)

   and more generally the product along ANY word p of generator letters (repetitions allowed) is the
   sign / key the table computes by folding over p (ev_table).  Null generators are covered (the
   scalar 0 acts).  No matrices here: Theory/MatrixAll.v instantiates T with integer matrices. *)
From Coq Require Import List ZArith Bool Lia Permutation.
From KV Require Import Model.All Theory.WF Theory.Words Theory.Sign Theory.Bits Theory.SignBits.
Import ListNotations.
Local Open Scope Z_scope.

Section Universal.
Variable A : alg.
Hypothesis Hwf : wf_alg A = true.
Local Notation vecs := (alg_vecs A).
Local Notation L := (alg_len A).
Local Notation m := (metric A).
Local Notation G := (genbit A).

Variable T : Type.
Variable ok : T -> Prop.
Variable mul : T -> T -> T.
Variable one : T.
Variable zsc : Z -> T -> T.
Variable g : nat -> T.

Hypothesis ok_one : ok one.
Hypothesis ok_g : forall c, In c vecs -> ok (g c).
Hypothesis ok_mul : forall x y, ok x -> ok y -> ok (mul x y).
Hypothesis mul_assoc : forall x y z, ok x -> ok y -> ok z -> mul (mul x y) z = mul x (mul y z).
Hypothesis mul_one_l : forall x, ok x -> mul one x = x.
Hypothesis mul_one_r : forall x, ok x -> mul x one = x.
Hypothesis zsc_mul_l : forall a x y, ok x -> ok y -> mul (zsc a x) y = zsc a (mul x y).
Hypothesis zsc_mul_r : forall a x y, ok x -> ok y -> mul x (zsc a y) = zsc a (mul x y).
Hypothesis zsc_one : forall x, ok x -> zsc 1 x = x.
Hypothesis zsc_zsc : forall a b x, ok x -> zsc a (zsc b x) = zsc (a * b) x.
(* the Clifford relations *)
Hypothesis g_square : forall c, In c vecs -> mul (g c) (g c) = zsc (m c) one.
Hypothesis g_anti : forall c e, In c vecs -> In e vecs -> c <> e ->
  mul (g c) (g e) = zsc (-1) (mul (g e) (g c)).

(* the ordered product along a word, exactly the fold of matrix_rep(blades=...):
   reduce(lambda x, y: x @ y, (Es[i] for i in blade), Iden) *)
Definition ev (w : name) : T := fold_left (fun acc c => mul acc (g c)) w one.
Definition blade (I : Z) : T := ev (nm A I).

Local Notation inV w := (forall c, In c w -> In c vecs).

(* ---------- words ---------- *)
Lemma fold_ok w : forall acc, ok acc -> inV w -> ok (fold_left (fun acc c => mul acc (g c)) w acc).
Proof.
  induction w as [|c w IH]; intros acc Hacc Hv; cbn [fold_left]; [exact Hacc|].
  apply IH.
  - apply ok_mul; [exact Hacc | apply ok_g; apply Hv; left; reflexivity].
  - intros e He. apply Hv. right. exact He.
Qed.

Lemma ev_ok w : inV w -> ok (ev w).
Proof. intros Hv. apply fold_ok; [exact ok_one | exact Hv]. Qed.

Lemma ev_nil : ev [] = one.
Proof. reflexivity. Qed.

Lemma fold_mul w : forall acc, ok acc -> inV w ->
  fold_left (fun acc c => mul acc (g c)) w acc = mul acc (ev w).
Proof.
  induction w as [|c w IH]; intros acc Hacc Hv.
  - cbn [fold_left]. rewrite ev_nil, mul_one_r; [reflexivity | exact Hacc].
  - assert (Hc : ok (g c)) by (apply ok_g; apply Hv; left; reflexivity).
    assert (Hw : inV w) by (intros e He; apply Hv; right; exact He).
    cbn [fold_left]. rewrite (IH (mul acc (g c))) by (try apply ok_mul; assumption).
    unfold ev at 2. cbn [fold_left].
    rewrite (IH (mul one (g c))) by (try apply ok_mul; assumption).
    rewrite (mul_one_l (g c) Hc).
    apply mul_assoc; [exact Hacc | exact Hc | apply ev_ok; exact Hw].
Qed.

Lemma ev_cons c w : In c vecs -> inV w -> ev (c :: w) = mul (g c) (ev w).
Proof.
  intros Hc Hw. unfold ev at 1. cbn [fold_left].
  rewrite (fold_mul w (mul one (g c))) by (try apply ok_mul; auto).
  rewrite mul_one_l by auto. reflexivity.
Qed.

Lemma ev_snoc w c : ev (w ++ [c]) = mul (ev w) (g c).
Proof. unfold ev. rewrite fold_left_app. reflexivity. Qed.

Lemma ev_app u v : inV u -> inV v -> ev (u ++ v) = mul (ev u) (ev v).
Proof.
  intros Hu Hv. unfold ev at 1. rewrite fold_left_app. apply fold_mul; [apply ev_ok; exact Hu | exact Hv].
Qed.

(* reordering a duplicate-free word costs the sign of the permutation *)
Lemma ev_perm w t : Permutation w t -> NoDup w -> inV w ->
  ev w = zsc (par (xorb (inv2 w) (inv2 t))) (ev t).
Proof.
  intros H. induction H as [|x l l' H IH|x y l|l l' l'' H1 IH1 H2 IH2]; intros Hnd Hv.
  - rewrite xorb_nilpotent. cbn [par]. rewrite zsc_one; [reflexivity | apply ev_ok; exact Hv].
  - inversion Hnd as [|x' r' Hx Hr]; subst.
    assert (Hxv : In x vecs) by (apply Hv; left; reflexivity).
    assert (Hl : inV l) by (intros e He; apply Hv; right; exact He).
    assert (Hl' : inV l') by (intros e He; apply Hl; apply (Permutation_in e (Permutation_sym H)); exact He).
    rewrite (ev_cons x l Hxv Hl), (ev_cons x l' Hxv Hl'), (IH Hr Hl).
    rewrite zsc_mul_r by (try apply ok_g; try apply ev_ok; assumption).
    f_equal. f_equal. cbn [inv2]. rewrite (clt_perm x l l' H).
    destruct (Nat.odd (clt x l')), (inv2 l), (inv2 l'); reflexivity.
  - inversion Hnd as [|y' r' Hy Hr]; subst. inversion Hr as [|x' r'' Hx Hr']; subst.
    assert (Hyx : y <> x) by (intro E; apply Hy; left; symmetry; exact E).
    assert (Hyv : In y vecs) by (apply Hv; left; reflexivity).
    assert (Hxv : In x vecs) by (apply Hv; right; left; reflexivity).
    assert (Hl : inV l) by (intros e He; apply Hv; right; right; exact He).
    assert (Hxl : inV (x :: l)) by (intros e [<-|He]; auto).
    assert (Hyl : inV (y :: l)) by (intros e [<-|He]; auto).
    rewrite (ev_cons y (x :: l) Hyv Hxl), (ev_cons x l Hxv Hl).
    rewrite (ev_cons x (y :: l) Hxv Hyl), (ev_cons y l Hyv Hl).
    pose proof (ev_ok l Hl) as Okl. pose proof (ok_g x Hxv) as Okx. pose proof (ok_g y Hyv) as Oky.
    rewrite <- (mul_assoc (g y) (g x) (ev l)) by assumption.
    rewrite (g_anti y x Hyv Hxv Hyx).
    rewrite zsc_mul_l by (try apply ok_mul; assumption).
    rewrite (mul_assoc (g x) (g y) (ev l)) by assumption.
    f_equal. pose proof (inv2_swap_adjacent [] y x l Hyx) as Hsw. cbn [app] in Hsw. rewrite Hsw.
    destruct (inv2 (x :: y :: l)); reflexivity.
  - assert (Hnd' : NoDup l') by (apply (Permutation_NoDup H1); exact Hnd).
    assert (Hv' : inV l') by (intros e He; apply Hv; apply (Permutation_in e (Permutation_sym H1)); exact He).
    assert (Hv'' : inV l'') by (intros e He; apply Hv'; apply (Permutation_in e (Permutation_sym H2)); exact He).
    rewrite (IH1 Hnd Hv), (IH2 Hnd' Hv'), zsc_zsc by (apply ev_ok; exact Hv'').
    f_equal. rewrite <- par_xorb. f_equal.
    destruct (inv2 l), (inv2 l'), (inv2 l''); reflexivity.
Qed.

(* ---------- a blade times one generator ---------- *)
Lemma nm_inV k : 0 <= k < L -> inV (nm A k).
Proof. intros Hk c Hc. apply (name_in_vecs A Hwf k _ c (nm_spec A Hwf k Hk) Hc). Qed.

Lemma blade_ok k : 0 <= k < L -> ok (blade k).
Proof. intros Hk. apply ev_ok. apply nm_inV. exact Hk. Qed.

(* the generator is not in the blade: it is appended and sorted into the table's spelling *)
Lemma blade_gen_new k c : 0 <= k < L -> In c vecs -> ~ In c (nm A k) ->
  mul (blade k) (g c) = zsc (sgn A k (G c)) (blade (Z.lxor k (G c))).
Proof.
  intros Hk Hc Hnin. set (k1 := Z.lxor k (G c)).
  assert (Hk1 : 0 <= k1 < L) by (apply (lxor_range A); [exact Hk | apply (genbit_range A Hwf); exact Hc]).
  pose proof (nm_spec A Hwf k Hk) as Ek. pose proof (nm_spec A Hwf k1 Hk1) as Ek1.
  pose proof (genbit_name A Hwf c Hc) as Ec.
  pose proof (bin2canon_NoDup A Hwf k _ Ek) as Nk.
  pose proof (name_lxor A Hwf k (G c) _ _ _ Ek Ec Ek1) as Hp.
  pose proof (sgn_table A Hwf k (G c) _ _ _ Ek Ec Ek1) as Hs.
  rewrite (sgn_names_closed m _ _ _ Nk (NoDup_single c) Hp), (common_snoc (nm A k) c Hnin) in Hs.
  unfold mprod in Hs. cbn [fold_left] in Hs. rewrite Z.mul_1_r in Hs. injection Hs as Hs.
  rewrite (sdiff_snoc (nm A k) c Hnin) in Hp.
  unfold blade. rewrite <- ev_snoc, <- Hs.
  apply (ev_perm _ _ Hp).
  - apply Sign.NoDup_snoc; assumption.
  - intros e He. apply in_app_or in He. destruct He as [He|[<-|[]]]; [apply (nm_inV k Hk); exact He | exact Hc].
Qed.

Lemma genbit_land_zero k c : In c vecs -> Z.testbit k (gpos A c) = false -> Z.land k (G c) = 0.
Proof.
  intros Hc Hb. destruct (genbit_spec A Hwf c Hc) as (-> & _ & _).
  pose proof (gpos_range A Hwf c Hc) as Hp.
  apply Z.bits_inj'. intros j _. rewrite Z.land_spec, Z.bits_0, pow2_bit by lia.
  destruct (Z.eqb_spec (gpos A c) j) as [<-|Hne]; [rewrite Hb; reflexivity | apply andb_false_r].
Qed.

(* the generator is in the blade: it is moved next to its twin and contracted with the metric *)
Lemma blade_gen_old k c : 0 <= k < L -> In c vecs -> In c (nm A k) ->
  mul (blade k) (g c) = zsc (sgn A k (G c)) (blade (Z.lxor k (G c))).
Proof.
  intros Hk Hc Hin. set (k' := Z.lxor k (G c)).
  pose proof (genbit_range A Hwf c Hc) as HG.
  assert (Hk' : 0 <= k' < L) by (apply (lxor_range A); assumption).
  assert (Hback : Z.lxor k' (G c) = k).
  { unfold k'. rewrite Z.lxor_assoc, Z.lxor_nilpotent, Z.lxor_0_r. reflexivity. }
  pose proof (gpos_range A Hwf c Hc) as Hp.
  assert (Hbit : Z.testbit k' (gpos A c) = false).
  { unfold k'. destruct (genbit_spec A Hwf c Hc) as (-> & _ & _).
    rewrite Z.lxor_spec, pow2_bit, Z.eqb_refl by lia.
    apply (name_mem A Hwf k _ c (nm_spec A Hwf k Hk)) in Hin. destruct Hin as [_ ->]. reflexivity. }
  assert (Hnin : ~ In c (nm A k')).
  { intro Hc'. apply (name_mem A Hwf k' _ c (nm_spec A Hwf k' Hk')) in Hc'. destruct Hc' as [_ E]. congruence. }
  pose proof (blade_gen_new k' c Hk' Hc Hnin) as Hnew. rewrite Hback in Hnew.
  set (s' := sgn A k' (G c)) in *.
  assert (Hs' : s' = 1 \/ s' = -1).
  { apply (sgn_disjoint A Hwf k' (G c) Hk' HG). apply genbit_land_zero; assumption. }
  assert (Hss : s' * s' = 1) by (destruct Hs' as [-> | ->]; reflexivity).
  (* the sign: sgn k c = s' * m c *)
  assert (Hsign : sgn A k (G c) = s' * m c).
  { pose proof (sgn_assoc A Hwf k' (G c) (G c) Hk' HG HG) as Has.
    rewrite Hback, Z.lxor_nilpotent in Has.
    destruct (sgn_square_gen A Hwf c Hc) as [Hsq _]. rewrite Hsq in Has.
    destruct (sgn_scalar A Hwf k' Hk') as [_ H1]. rewrite H1, Z.mul_1_r in Has. fold s' in Has.
    transitivity (s' * s' * sgn A k (G c)); [rewrite Hss; ring|]. rewrite <- Z.mul_assoc, Has. reflexivity. }
  pose proof (blade_ok k Hk) as Okk. pose proof (blade_ok k' Hk') as Okk'. pose proof (ok_g c Hc) as Okc.
  assert (Ek : blade k = zsc s' (mul (blade k') (g c))).
  { rewrite Hnew, zsc_zsc, Hss, zsc_one by assumption. reflexivity. }
  rewrite Ek at 1.
  rewrite zsc_mul_l by (try apply ok_mul; assumption).
  rewrite mul_assoc by assumption.
  rewrite (g_square c Hc), zsc_mul_r, mul_one_r, zsc_zsc, Hsign by assumption.
  reflexivity.
Qed.

Theorem blade_gen k c : 0 <= k < L -> In c vecs ->
  mul (blade k) (g c) = zsc (sgn A k (G c)) (blade (Z.lxor k (G c))).
Proof.
  intros Hk Hc. destruct (in_dec Nat.eq_dec c (nm A k)) as [Hin|Hnin];
    [apply blade_gen_old | apply blade_gen_new]; assumption.
Qed.

(* ---------- a blade times a word: the fold of the table ---------- *)
Lemma op_step_range I s c : 0 <= I < L -> In c vecs -> 0 <= snd (op_step A (s, I) c) < L.
Proof.
  intros HI Hc. cbn [op_step snd]. apply (lxor_range A); [exact HI | apply (genbit_range A Hwf); exact Hc].
Qed.

Lemma blade_word p : forall I s, 0 <= I < L -> inV p ->
  0 <= snd (fold_left (op_step A) p (s, I)) < L /\
  zsc s (mul (blade I) (ev p))
  = zsc (fst (fold_left (op_step A) p (s, I))) (blade (snd (fold_left (op_step A) p (s, I)))).
Proof.
  induction p as [|c p IH]; intros I s HI Hv.
  - cbn [fold_left fst snd]. split; [exact HI|]. rewrite ev_nil, mul_one_r; [reflexivity | apply blade_ok; exact HI].
  - assert (Hc : In c vecs) by (apply Hv; left; reflexivity).
    assert (Hp : inV p) by (intros e He; apply Hv; right; exact He).
    change (fold_left (op_step A) (c :: p) (s, I))
      with (fold_left (op_step A) p (s * sgn A I (G c), Z.lxor I (G c))).
    set (I' := Z.lxor I (G c)). set (sg := sgn A I (G c)).
    assert (HI' : 0 <= I' < L) by (apply (lxor_range A); [exact HI | apply (genbit_range A Hwf); exact Hc]).
    destruct (IH I' (s * sg) HI' Hp) as [Hr Heq]. split; [exact Hr|]. rewrite <- Heq.
    pose proof (blade_ok I HI) as OkI. pose proof (blade_ok I' HI') as OkI'.
    pose proof (ok_g c Hc) as Okc. pose proof (ev_ok p Hp) as Okp.
    rewrite (ev_cons c p Hc Hp), <- mul_assoc by assumption.
    rewrite (blade_gen I c HI Hc). fold I' sg.
    rewrite zsc_mul_l, zsc_zsc by (try apply ok_mul; assumption). reflexivity.
Qed.

(* starting the fold at I instead of the scalar multiplies the sign by sgn(I, K): associativity of the table *)
Lemma fold_shift p : inV p -> forall I, 0 <= I < L ->
  0 <= snd (fold_left (op_step A) p (1, 0)) < L /\
  fold_left (op_step A) p (1, I)
  = (fst (fold_left (op_step A) p (1, 0)) * sgn A I (snd (fold_left (op_step A) p (1, 0))),
     Z.lxor I (snd (fold_left (op_step A) p (1, 0)))).
Proof.
  induction p as [|c p IH] using rev_ind; intros Hv I HI.
  - cbn [fold_left fst snd]. pose proof (alg_len_pos A) as HL. split; [lia|].
    destruct (sgn_scalar A Hwf I HI) as [_ ->]. rewrite Z.lxor_0_r. reflexivity.
  - assert (Hc : In c vecs) by (apply Hv; apply in_or_app; right; left; reflexivity).
    assert (Hp : inV p) by (intros e He; apply Hv; apply in_or_app; left; exact He).
    destruct (IH Hp I HI) as [HK Heq]. rewrite !fold_left_app. cbn [fold_left]. rewrite Heq.
    destruct (fold_left (op_step A) p (1, 0)) as [sg K]. cbn [fst snd] in *.
    pose proof (genbit_range A Hwf c Hc) as HG.
    unfold op_step. cbn [fst snd]. split; [apply (lxor_range A); assumption|].
    rewrite Z.lxor_assoc. f_equal.
    rewrite <- !Z.mul_assoc. f_equal. apply (sgn_assoc A Hwf I K (G c) HI HK HG).
Qed.

(* THE universal property: the sign table is the multiplication table of the ordered products *)
Theorem universal_hom I J : 0 <= I < L -> 0 <= J < L ->
  mul (blade I) (blade J) = zsc (sgn A I J) (blade (Z.lxor I J)).
Proof.
  intros HI HJ. pose proof (nm_inV J HJ) as Hv.
  destruct (blade_word (nm A J) I 1 HI Hv) as [_ Hw].
  destruct (fold_shift (nm A J) Hv I HI) as [_ Hsh].
  pose proof (sgn_ordered_product A Hwf J _ (nm_spec A Hwf J HJ)) as Hop.
  change (fold_left (op_step A) (nm A J) (1, 0) = (1, J)) in Hop.
  rewrite Hop in Hsh. cbn [fst snd] in Hsh. rewrite Hsh in Hw. cbn [fst snd] in Hw.
  rewrite Z.mul_1_l in Hw. rewrite <- Hw. symmetry. apply zsc_one.
  apply ok_mul; apply blade_ok; assumption.
Qed.

(* every word of generator letters (any order, repetitions allowed) evaluates to what the table computes *)
Theorem ev_table p : inV p ->
  0 <= snd (fold_left (op_step A) p (1, 0)) < L /\
  ev p = zsc (fst (fold_left (op_step A) p (1, 0))) (blade (snd (fold_left (op_step A) p (1, 0)))).
Proof.
  intros Hv. pose proof (alg_len_pos A) as HL. assert (H0 : 0 <= 0 < L) by lia.
  destruct (blade_word p 0 1 H0 Hv) as [Hr Hw]. split; [exact Hr|]. rewrite <- Hw.
  unfold blade at 1. rewrite (nm_0 A Hwf), ev_nil.
  pose proof (ev_ok p Hv) as Okp. rewrite mul_one_l, zsc_one by assumption. reflexivity.
Qed.

Lemma blade_0 : blade 0 = one.
Proof. unfold blade. rewrite (nm_0 A Hwf). reflexivity. Qed.

Lemma blade_genbit c : In c vecs -> blade (G c) = g c.
Proof.
  intros Hc. unfold blade. rewrite (nm_eq A (G c) [c] (genbit_name A Hwf c Hc)).
  unfold ev. cbn [fold_left]. apply mul_one_l. apply ok_g. exact Hc.
Qed.

End Universal.
