(* Theory/Tape.v — C11: a registered (compiled) expression equals direct evaluation.
   Model/Tape.v: [direct] (MultiVector methods on values), [record] (TapeRecorder methods: the call tree of
   generated functions), [run_tape], [registered] (Registry.__call__).

   Part 1  abstract: any table [opd] of generated functions that is well-formed and does not depend on the
           storage order of its operands (optable_ok), with the few algebraic laws the recorder relies on
           (a scalar commutes in gp / op / add, other - self = other + (-self), arithmetic of scalars).
           G2 (record_perm): compiling and running a registered function is independent of the storage
               order of its arguments.
           G1 (agree_gen): whenever f(args) returns, the recorder run either raises or returns the same
               multivector, and it does return on the supported fragment.
   Part 2  the table of Model/Tape.v ([std_opd]: every polynomial operator of Model/Codegen.v and
           Model/Composite.v, inverse / division / roots as a parameter [ext]) satisfies optable_ok in every
           well-formed algebra over every commutative ring.
   Part 3  the statements used by Props/C11.v. *)
From Coq Require Import String List ZArith Bool Lia Permutation Ring_theory Ring Morphisms.
From KV Require Import Model.All Model.Composite Model.Poly Model.Tape Gen.Dunder.
From KV Require Import Theory.WF Theory.Sparse Theory.Product Theory.Ops Theory.OpsWF Theory.Poly Theory.Natural.
Import ListNotations.
Local Open Scope Z_scope.

(* ================= 0. generic helpers ================= *)

Lemma bind_ok {X Y} (a : res X) (f : X -> res Y) r :
  bind a f = Ok r -> exists x, a = Ok x /\ f x = Ok r.
Proof. destruct a as [x|e]; cbn; intros H; [exists x; auto | discriminate]. Qed.

Ltac fa := repeat (first [apply Forall_nil | apply Forall2_nil | apply Forall_cons | apply Forall2_cons]).
Tactic Notation "inv_bindn" hyp(H) "as" ident(x) ident(Hx) :=
  apply bind_ok in H; destruct H as [x [Hx H]].
Ltac inv_bind H :=
  let x := fresh "x" in let Hx := fresh "Hx" in
  apply bind_ok in H; destruct H as [x [Hx H]].

Lemma keys_combine {V} (ks : list Z) (vs : list V) : length vs = length ks -> keys (combine ks vs) = ks.
Proof.
  revert vs. induction ks as [|k ks IH]; intros [|v vs] H; cbn in *; try discriminate; auto.
  f_equal. apply IH. lia.
Qed.
Lemma vals_combine {V} (ks : list Z) (vs : list V) : length vs = length ks -> vals (combine ks vs) = vs.
Proof.
  revert vs. induction ks as [|k ks IH]; intros [|v vs] H; cbn in *; try discriminate; auto.
  f_equal. apply IH. lia.
Qed.
Lemma combine_keys_vals {V} (x : mv V) : combine (keys x) (vals x) = x.
Proof. induction x as [|[k v] x IH]; cbn; [reflexivity | f_equal; exact IH]. Qed.
Lemma length_keys {V} (x : mv V) : length (keys x) = length x.
Proof. apply map_length. Qed.
Lemma length_vals {V} (x : mv V) : length (vals x) = length x.
Proof. apply map_length. Qed.
Lemma perm_keys {V} (x x' : mv V) : Permutation x x' -> Permutation (keys x) (keys x').
Proof. apply Permutation_map. Qed.

Lemma NoDup_keys_NoDup {V} (x : mv V) : NoDup (keys x) -> NoDup x.
Proof.
  induction x as [|[k v] x IH]; cbn; intros H; [constructor|].
  inversion H as [|? ? Hn Hd]; subst. constructor; [|auto].
  intros Hin. apply Hn. apply in_map_iff. exists (k, v). auto.
Qed.
Lemma in_keys_unique {V} (x : mv V) k v v' : NoDup (keys x) -> In (k, v) x -> In (k, v') x -> v = v'.
Proof.
  induction x as [|[k0 v0] x IH]; cbn; intros Hn H1 H2; [contradiction|].
  inversion Hn as [|? ? Hni Hd]; subst.
  destruct H1 as [E1|H1], H2 as [E2|H2].
  - congruence.
  - inversion E1; subst. exfalso. apply Hni. apply in_map_iff. exists (k, v'). auto.
  - inversion E2; subst. exfalso. apply Hni. apply in_map_iff. exists (k, v). auto.
  - eauto.
Qed.
Lemma perm_singleton {X} (a : X) l : Permutation [a] l -> l = [a].
Proof. apply Permutation_length_1_inv. Qed.

Lemma Permutation_filter' {X} (p : X -> bool) l l' : Permutation l l' -> Permutation (filter p l) (filter p l').
Proof.
  induction 1; cbn.
  - constructor.
  - destruct (p x); [constructor|]; assumption.
  - destruct (p x), (p y); try (apply Permutation_refl); apply perm_swap.
  - eapply Permutation_trans; eassumption.
Qed.

(* zindex = tuple.index *)
Lemma zindex_none k l : zindex k l = None <-> ~ In k l.
Proof.
  induction l as [|x l IH]; cbn; [tauto|].
  destruct (Z.eqb_spec x k) as [E|E].
  - split; [discriminate | intros H; exfalso; apply H; auto].
  - destruct (zindex k l) as [i|]; cbn.
    + split; [discriminate|]. intros H. exfalso. apply H. right.
      destruct (in_dec Z.eq_dec k l) as [Hin|Hn]; [exact Hin|]. apply IH in Hn. discriminate.
    + split; [|reflexivity]. intros _ [H|H]; [congruence|]. apply (proj1 IH); auto.
Qed.
Lemma zindex_some k l i : zindex k l = Some i -> nth_error l i = Some k.
Proof.
  revert i. induction l as [|x l IH]; cbn; intros i H; [discriminate|].
  destruct (Z.eqb_spec x k) as [E|E].
  - inversion H; subst. reflexivity.
  - destruct (zindex k l) as [j|]; cbn in H; [|discriminate]. inversion H; subst. cbn. apply IH. reflexivity.
Qed.
Lemma nth_combine {V} (ks : list Z) (vs : list V) i k :
  length vs = length ks -> nth_error ks i = Some k ->
  exists v, nth_error vs i = Some v /\ In (k, v) (combine ks vs).
Proof.
  revert vs i. induction ks as [|k0 ks IH]; intros [|v0 vs] [|i] Hl Hn; cbn in *; try discriminate.
  - inversion Hn; subst. exists v0. auto.
  - destruct (IH vs i) as [v [H1 H2]]; [lia | exact Hn |]. exists v. auto.
Qed.

Lemma mlookup_in m t op sw ar : mlookup m t = Some (op, sw, ar) -> In (m, op, sw, ar) t.
Proof.
  induction t as [|[[[n op0] sw0] ar0] t IH]; cbn; [discriminate|].
  destruct (mlookup m t) as [x|] eqn:E.
  - intros H. inversion H; subst. right. apply IH. reflexivity.
  - destruct (String.eqb_spec n m) as [En|En]; [|discriminate]. intros H. inversion H; subst. left. reflexivity.
Qed.

Local Arguments mlookup : simpl never.
Local Arguments String.eqb : simpl never.

(* ================= 0b. the generated method tables (Gen/Dunder.v) ================= *)
(* Everything below is computed from the tables translated from multivector.py / taperecorder.py: when
   the source changes a binding, these lemmas (and with them the theorems) stop compiling. *)


(* a member that exists on both surfaces calls the same algebra operator with the same arity *)
Definition tables_agree_b : bool :=
  forallb (fun e => let '(n, op', _, ar') := e in
                    match mlookup n mv_methods with
                    | Some (op, _, ar) => String.eqb op op' && Nat.eqb ar ar'
                    | None => true
                    end) tape_methods.
Lemma tables_agree m op sw ar op' sw' ar' :
  mlookup m mv_methods = Some (op, sw, ar) -> mlookup m tape_methods = Some (op', sw', ar') -> op = op' /\ ar = ar'.
Proof.
  intros H1 H2. apply mlookup_in in H2.
  assert (Hb : tables_agree_b = true) by (vm_compute; reflexivity).
  unfold tables_agree_b in Hb. rewrite forallb_forall in Hb. specialize (Hb _ H2). cbn beta iota in Hb.
  rewrite H1 in Hb. apply andb_true_iff in Hb. destruct Hb as [Ha Hb].
  apply String.eqb_eq in Ha. apply Nat.eqb_eq in Hb. auto.
Qed.

Definition opname (o : infix) : string :=
  match o with
  | IAdd => "add" | ISub => "sub" | IMul => "gp" | IDiv => "div" | IXor => "op" | IOr => "ip" | IAnd => "rp"
  | IRshift => "sw" | IMatmul => "proj"
  end.
Lemma lk_mv_dunder o : mlookup (dunder o) mv_methods = Some (opname o, false, 2%nat).
Proof. destruct o; vm_compute; reflexivity. Qed.
Lemma lk_mv_rdunder o : mlookup (rdunder o) mv_methods
  = Some (opname o, match o with IAdd => false | _ => true end, 2%nat).
Proof. destruct o; vm_compute; reflexivity. Qed.
Lemma lk_tp_dunder o : mlookup (dunder o) tape_methods = Some (opname o, false, 2%nat).
Proof. destruct o; vm_compute; reflexivity. Qed.
Lemma lk_tp_rdunder o : mlookup (rdunder o) tape_methods
  = match o with IAdd => Some (opname o, false, 2%nat) | _ => None end.
Proof. destruct o; vm_compute; reflexivity. Qed.
Lemma lk_mv_un : forall m op, In (m, op) [("__neg__", "neg"); ("__invert__", "reverse"); ("inv", "inv"); ("normsq", "normsq");
    ("sqrt", "sqrt"); ("polarity", "polarity"); ("unpolarity", "unpolarity"); ("hodge", "hodge"); ("unhodge", "unhodge")] ->
  mlookup m mv_methods = Some (op, false, 1%nat) /\ mlookup m tape_methods = Some (op, false, 1%nat).
Proof. intros m op H. cbn in H. repeat (destruct H as [H|H]; [inversion H; subst; vm_compute; split; reflexivity|]). contradiction. Qed.
Lemma lk_gp : mlookup "gp" mv_methods = Some ("gp", false, 2%nat) /\ mlookup "gp" tape_methods = Some ("gp", false, 2%nat).
Proof. vm_compute. split; reflexivity. Qed.
Lemma lk_op : mlookup "op" tape_methods = Some ("op", false, 2%nat).
Proof. vm_compute. reflexivity. Qed.
Lemma lk_tp_add : mlookup "__add__" tape_methods = Some ("add", false, 2%nat).
Proof. vm_compute. reflexivity. Qed.
(* the members MultiVector defines with swapped operands and the recorder writes out as methods *)
Lemma lk_mv_special m : In m ["__rsub__"; "__rmul__"; "__rxor__"] -> exists op ar, mlookup m mv_methods = Some (op, true, ar).
Proof. intros H. cbn in H. repeat (destruct H as [H|H]; [subst m; vm_compute; eauto|]). contradiction. Qed.


(* ================= 0c. the supported fragment, statically ================= *)
Definition is_un (m : string) : bool := match mlookup m tape_methods with Some (_, _, 1%nat) => true | _ => false end.
Definition is_bin (m : string) : bool := match mlookup m tape_methods with Some (_, _, 2%nat) => true | _ => false end.
(* a member that MultiVector defines with swapped operands (a reflected dunder) *)
Definition noswap_m (m : string) : bool := match mlookup m mv_methods with Some (_, true, _) => false | _ => true end.
Definition is_neg (u : prefix) : bool := match u with PNeg => true | PInvert => false end.
Definition sup_infix (o : infix) (nb1 nb2 : bool) : bool :=
  if nb1 then (if nb2 then match o with IAdd | ISub | IMul => true | _ => false end
               else match o with IAdd | ISub | IMul | IXor => true | _ => false end)
  else true.

Section Static.
  Context {R : Type}.
  (* the subexpression is a Python number in BOTH worlds (literal arithmetic); everything else is a
     recorder on the compiled path *)
  Fixpoint isnum (e : expr R) : bool :=
    match e with
    | ENum _ => true
    | EPrefix u e1 => isnum e1 && is_neg u
    | EInfix o e1 e2 => isnum e1 && isnum e2
    | _ => false
    end.
  (* no explicit call  x.__rmul__(y) / x.__rxor__(y) ...  of a reflected member *)
  Fixpoint noswap (e : expr R) : bool :=
    match e with
    | EArg _ | ENum _ => true
    | EMeth1 _ e1 | EPrefix _ e1 | EPow e1 _ | EGrade e1 _ | ECoeff e1 _ | EDual e1 _ | EUndual e1 _
    | ENorm e1 | ENormalized e1 => noswap e1
    | EMeth2 m e1 e2 => noswap_m m && noswap e1 && noswap e2
    | EInfix _ e1 e2 => noswap e1 && noswap e2
    | ECall _ args => forallb noswap args
    end.
  (* the fragment on which the compiled function is guaranteed to return *)
  Fixpoint supported (e : expr R) : bool :=
    match e with
    | EArg _ | ENum _ => true
    | EMeth1 m e1 => supported e1 && (negb (isnum e1) && is_un m)
    | EMeth2 m e1 e2 => supported e1 && (supported e2 && (negb (isnum e1) && is_bin m))
    | EPrefix u e1 => supported e1 && (if isnum e1 then is_neg u else true)
    | EInfix o e1 e2 => supported e1 && (supported e2 && sup_infix o (isnum e1) (isnum e2))
    | EPow e1 _ | EGrade e1 _ | ECoeff e1 _ | EDual e1 _ | EUndual e1 _ | ENorm e1 | ENormalized e1 =>
        supported e1 && negb (isnum e1)
    | ECall _ args => forallb supported args && existsb (fun a => negb (isnum a)) args
    end.
End Static.

(* ================= 1. abstract part: any well-behaved table of generated functions ================= *)

Section Abstract.
  Variable R : Type.
  Variables (rO rI : R) (radd rmul rsub : R -> R -> R) (ropp : R -> R).
  Hypothesis Rth : ring_theory rO rI radd rmul rsub ropp (@eq R).
  Add Ring TapeRing : Rth.
  Local Notation O := (mkOps R radd rsub rmul ropp rO rI).
  Variable A : alg.
  Variable opd : optable R.
  Variable bodies : list (expr R).

  Local Notation call := (call_op opd).
  Local Notation rec_ := (record O A opd tape_methods bodies).
  Local Notation run := (run_tape O opd).
  Local Notation reg := (registered O A opd tape_methods bodies).
  Local Notation dir := (direct O A opd mv_methods tape_methods bodies).

  Definition wfk (ks : list Z) : Prop := NoDup ks /\ incl ks (canon_keys A).
  Definition wfm (x : mv R) : Prop := wfk (keys x).

  (* the hypotheses on the table of generated functions *)
  Record optable_ok : Prop := mkOk {
    (* code generation succeeds or fails independently of the order of the operand keys *)
    ok_static : forall op kin kin' ko f, Forall wfk kin -> Forall2 (@Permutation Z) kin kin' ->
      opd op kin = Ok (ko, f) -> exists ko' f', opd op kin' = Ok (ko', f') /\ Permutation ko ko';
    (* keys_out: pairwise distinct blades of the algebra *)
    ok_wf : forall op kin ko f, Forall wfk kin -> opd op kin = Ok (ko, f) -> wfk ko;
    (* one value per key *)
    ok_len : forall op kin ko f vs r, opd op kin = Ok (ko, f) ->
      Forall2 (fun ks v => length v = length ks) kin vs -> f vs = Ok r -> length r = length ko;
    (* storage-order independence of an operator call (C08) *)
    ok_perm : forall op xs xs' m, Forall wfm xs -> Forall2 (@Permutation (Z * R)) xs xs' ->
      call op xs = Ok m -> exists m', call op xs' = Ok m' /\ Permutation m m';
    (* a scalar commutes: number * x, number ^ x, x + number *)
    ok_gp_comm : forall c x m, wfm x -> call "gp" [[(0, c)]; x] = Ok m ->
      exists m', call "gp" [x; [(0, c)]] = Ok m' /\ Permutation m m';
    ok_op_comm : forall c x m, wfm x -> call "op" [[(0, c)]; x] = Ok m ->
      exists m', call "op" [x; [(0, c)]] = Ok m' /\ Permutation m m';
    ok_add_comm : forall c x m, wfm x -> call "add" [x; [(0, c)]] = Ok m ->
      exists m', call "add" [[(0, c)]; x] = Ok m' /\ Permutation m m';
    (* number - x = number + (-x) *)
    ok_rsub : forall c x m, wfm x -> call "sub" [[(0, c)]; x] = Ok m ->
      exists n m', call "neg" [x] = Ok n /\ call "add" [n; [(0, c)]] = Ok m' /\ Permutation m m';
    (* arithmetic of scalars *)
    ok_s_add : forall a b, call "add" [[(0, a)]; [(0, b)]] = Ok [(0, radd a b)];
    ok_s_sub : forall a b, call "sub" [[(0, a)]; [(0, b)]] = Ok [(0, rsub a b)];
    ok_s_gp : forall a b, call "gp" [[(0, a)]; [(0, b)]] = Ok [(0, rmul a b)];
    ok_s_neg : forall a, call "neg" [[(0, a)]] = Ok [(0, ropp a)];
  }.
  Hypothesis Hopd : optable_ok.
  (* facts about the algebra *)
  Hypothesis H0 : In 0 (canon_keys A).
  Hypothesis Hgr : forall gs bb, indices_for_grades A gs = Ok bb -> NoDup bb.

  Lemma wfk_perm ks ks' : wfk ks -> Permutation ks ks' -> wfk ks'.
  Proof.
    intros [Hn Hi] Hp. split.
    - eapply Permutation_NoDup; eassumption.
    - intros k Hk. apply Hi. eapply Permutation_in; [apply Permutation_sym|]; eassumption.
  Qed.
  Lemma wfm_perm x x' : wfm x -> Permutation x x' -> wfm x'.
  Proof. intros H Hp. eapply wfk_perm; [exact H | apply perm_keys; exact Hp]. Qed.
  Lemma wfm_scalar c : wfm [(0, c)].
  Proof. split; cbn; [repeat constructor; intros [] | intros k [E|[]]; subst; exact H0]. Qed.
  Lemma wfk_0 : wfk [0].
  Proof. exact (wfm_scalar rO). Qed.
  Lemma wfm_combine ks (vs : list R) : wfk ks -> length vs = length ks -> wfm (combine ks vs).
  Proof. intros H Hl. unfold wfm. rewrite keys_combine by exact Hl. exact H. Qed.

  (* a call on operands given as (keys, value list) pairs *)
  Lemma call1_inv op x m : call op [x] = Ok m ->
    exists ko f r, opd op [keys x] = Ok (ko, f) /\ f [vals x] = Ok r /\ m = combine ko r.
  Proof.
    unfold call_op. cbn [map]. intros H. inv_bind H. destruct x0 as [ko f]. inv_bind H.
    inversion H; subst. eauto 7.
  Qed.
  Lemma call2_inv op x y m : call op [x; y] = Ok m ->
    exists ko f r, opd op [keys x; keys y] = Ok (ko, f) /\ f [vals x; vals y] = Ok r /\ m = combine ko r.
  Proof.
    unfold call_op. cbn [map]. intros H. inv_bind H. destruct x0 as [ko f]. inv_bind H.
    inversion H; subst. eauto 7.
  Qed.
  Lemma call1_intro op x ko f r : opd op [keys x] = Ok (ko, f) -> f [vals x] = Ok r -> call op [x] = Ok (combine ko r).
  Proof. intros H1 H2. unfold call_op. cbn [map]. rewrite H1. cbn. rewrite H2. reflexivity. Qed.
  Lemma call2_intro op x y ko f r : opd op [keys x; keys y] = Ok (ko, f) -> f [vals x; vals y] = Ok r ->
    call op [x; y] = Ok (combine ko r).
  Proof. intros H1 H2. unfold call_op. cbn [map]. rewrite H1. cbn. rewrite H2. reflexivity. Qed.

  Lemma call_wf op xs m : Forall wfm xs -> call op xs = Ok m -> wfm m /\
    exists ko f r, opd op (map keys xs) = Ok (ko, f) /\ f (map vals xs) = Ok r /\ m = combine ko r /\ length r = length ko.
  Proof.
    intros Hx H. unfold call_op in H. inv_bind H. destruct x as [ko f]. inv_bind H. inversion H; subst.
    assert (Hl : length x = length ko).
    { eapply (ok_len Hopd); [exact Hx0 | | exact Hx1].
      clear. induction xs as [|y ys IH]; cbn; constructor; [|exact IH].
      rewrite length_vals, length_keys. reflexivity. }
    split.
    - apply wfm_combine; [|exact Hl]. eapply (ok_wf Hopd); [|exact Hx0].
      apply Forall_forall. intros ks Hk. apply in_map_iff in Hk. destruct Hk as [y [E Hy]]. subst.
      eapply Forall_forall in Hx; [exact Hx | exact Hy].
    - eauto 8.
  Qed.

  (* run of an operator node *)
  Lemma run_TOp1 venv op ks t : run venv (TOp op [ks] [t]) =
    ('(_, f) <- opd op [ks] ;; args <- (v <- run venv t ;; Ok [v]) ;; f args).
  Proof.
    cbn. destruct (opd op [ks]) as [[ko f]|e]; cbn; [|reflexivity].
    destruct (run_tape O opd venv t); reflexivity.
  Qed.
  Lemma run_TOp2 venv op ks1 ks2 t1 t2 : run venv (TOp op [ks1; ks2] [t1; t2]) =
    ('(_, f) <- opd op [ks1; ks2] ;; args <- (v1 <- run venv t1 ;; v2 <- run venv t2 ;; Ok [v1; v2]) ;; f args).
  Proof.
    cbn. destruct (opd op [ks1; ks2]) as [[ko f]|e]; cbn; [|reflexivity].
    destruct (run_tape O opd venv t1); cbn; [|reflexivity].
    destruct (run_tape O opd venv t2); reflexivity.
  Qed.

  (* an operator call on operands stored as x, y  versus  the generated function for the recorder's keys
     applied to the recorder's run-time values, when the operands agree up to storage order *)
  Lemma callnode1 op x m ks a : wfm x -> wfk ks -> length a = length ks -> Permutation x (combine ks a) ->
    call op [x] = Ok m ->
    exists ko f vs, opd op [ks] = Ok (ko, f) /\ f [a] = Ok vs /\ length vs = length ko /\ wfk ko
                    /\ Permutation m (combine ko vs).
  Proof.
    intros Hx Hk Hl Hp Hc.
    destruct (ok_perm Hopd op [x] [combine ks a] m) as [m' [Hc' Hpm]].
    - fa; exact Hx.
    - fa; exact Hp.
    - exact Hc.
    - destruct (call_wf op [combine ks a] m') as [Hw [ko [f [r [H1 [H2 [E Hlen]]]]]]].
      + fa; apply wfm_combine; assumption.
      + exact Hc'.
      + cbn [map] in H1, H2. rewrite keys_combine in H1 by exact Hl. rewrite vals_combine in H2 by exact Hl.
        exists ko, f, r. subst m'. repeat split; try assumption.
        * unfold wfm in Hw. rewrite keys_combine in Hw by exact Hlen. apply Hw.
        * unfold wfm in Hw. rewrite keys_combine in Hw by exact Hlen. apply Hw.
  Qed.
  Lemma callnode2 op x y m ks1 a1 ks2 a2 :
    wfm x -> wfk ks1 -> length a1 = length ks1 -> Permutation x (combine ks1 a1) ->
    wfm y -> wfk ks2 -> length a2 = length ks2 -> Permutation y (combine ks2 a2) ->
    call op [x; y] = Ok m ->
    exists ko f vs, opd op [ks1; ks2] = Ok (ko, f) /\ f [a1; a2] = Ok vs /\ length vs = length ko /\ wfk ko
                    /\ Permutation m (combine ko vs).
  Proof.
    intros Hx Hk1 Hl1 Hp1 Hy Hk2 Hl2 Hp2 Hc.
    destruct (ok_perm Hopd op [x; y] [combine ks1 a1; combine ks2 a2] m) as [m' [Hc' Hpm]].
    - fa; assumption.
    - fa; assumption.
    - exact Hc.
    - destruct (call_wf op [combine ks1 a1; combine ks2 a2] m') as [Hw [ko [f [r [H1 [H2 [E Hlen]]]]]]].
      + fa; apply wfm_combine; assumption.
      + exact Hc'.
      + cbn [map] in H1, H2. rewrite !keys_combine in H1 by assumption. rewrite !vals_combine in H2 by assumption.
        exists ko, f, r. subst m'. unfold wfm in Hw. rewrite keys_combine in Hw by exact Hlen.
        repeat split; try assumption; apply Hw.
  Qed.

  (* ---------------- G2: recording and running do not depend on the storage order of the arguments ---------------- *)
  Definition RRs (r r' : @rval R) : Prop :=
    match r, r' with
    | RNum c, RNum c' => c = c'
    | RRec ks _, RRec ks' _ => wfk ks /\ Permutation ks ks'
    | _, _ => False
    end.
  Definition RRd (venv venv' : list (list R)) (r r' : @rval R) : Prop :=
    match r, r' with
    | RRec ks t, RRec ks' t' =>
        forall vs, run venv t = Ok vs ->
          length vs = length ks /\
          exists vs', run venv' t' = Ok vs' /\ length vs' = length ks' /\ Permutation (combine ks vs) (combine ks' vs')
    | _, _ => True
    end.
  (* what a G2 step delivers for a derived recorder value *)
  Definition RRstep (q : @rval R) (res' : res (@rval R)) (P : list (list R) -> list (list R) -> Prop) : Prop :=
    exists q', res' = Ok q' /\ RRs q q' /\ forall venv venv', P venv venv' -> RRd venv venv' q q'.

  Lemma rr_unary op ks t ks' t' q : wfk ks -> Permutation ks ks' ->
    rec_unary opd op ks t = Ok q ->
    RRstep q (rec_unary opd op ks' t') (fun venv venv' => RRd venv venv' (RRec ks t) (RRec ks' t')).
  Proof.
    intros Hk Hp H. unfold rec_unary in H. inv_bind H. destruct x as [ko f]. inversion H; subst q. clear H.
    destruct (ok_static Hopd op [ks] [ks'] ko f) as [ko' [f' [Ho' Hpk]]]; [fa; exact Hk | fa; exact Hp | exact Hx |].
    assert (Hwko : wfk ko) by (eapply (ok_wf Hopd); [|exact Hx]; fa; exact Hk).
    exists (RRec ko' (TOp op [ks'] [t'])). split; [unfold rec_unary; rewrite Ho'; reflexivity|].
    split; [split; assumption|].
    intros venv venv' Hd vs Hrun. rewrite run_TOp1, Hx in Hrun. cbn in Hrun.
    destruct (run_tape O opd venv t) as [a|] eqn:Ht; cbn in Hrun; [|discriminate].
    destruct (Hd a Ht) as [Hla [a' [Ht' [Hla' Hpa]]]].
    destruct (callnode1 op (combine ks a) (combine ko vs) ks' a') as [ko2 [f2 [vs' [E1 [E2 [E3 [E4 E5]]]]]]].
    - apply wfm_combine; assumption.
    - exact (wfk_perm ks ks' Hk Hp).
    - exact Hla'.
    - exact Hpa.
    - apply (call1_intro op _ ko f vs); [rewrite keys_combine by exact Hla; exact Hx | rewrite vals_combine by exact Hla; exact Hrun].
    - rewrite Ho' in E1. inversion E1; subst ko2 f2.
      split.
      + eapply (ok_len Hopd); [exact Hx | | exact Hrun]. fa. exact Hla.
      + exists vs'. rewrite run_TOp1, Ho'. cbn. rewrite Ht'. cbn. repeat split; assumption.
  Qed.

  Lemma rr_binary op ks1 t1 ks1' t1' r2 r2' q : wfk ks1 -> Permutation ks1 ks1' -> RRs r2 r2' ->
    rec_binary opd op ks1 t1 r2 = Ok q ->
    RRstep q (rec_binary opd op ks1' t1' r2')
      (fun venv venv' => RRd venv venv' (RRec ks1 t1) (RRec ks1' t1') /\ RRd venv venv' r2 r2').
  Proof.
    intros Hk Hp Hr H.
    (* the second operand as (keys, tape) on both sides *)
    assert (Hgen : forall ks2 t2 ks2' t2', wfk ks2 -> Permutation ks2 ks2' ->
              forall ko f, opd op [ks1; ks2] = Ok (ko, f) ->
              RRstep (RRec ko (TOp op [ks1; ks2] [t1; t2]))
                     ('(ko', _) <- opd op [ks1'; ks2'] ;; Ok (RRec ko' (TOp op [ks1'; ks2'] [t1'; t2'])))
                     (fun venv venv' => RRd venv venv' (RRec ks1 t1) (RRec ks1' t1') /\
                                        RRd venv venv' (RRec ks2 t2) (RRec ks2' t2'))).
    { intros ks2 t2 ks2' t2' Hk2 Hp2 ko f Hx.
      destruct (ok_static Hopd op [ks1; ks2] [ks1'; ks2'] ko f) as [ko' [f' [Ho' Hpk]]];
        [fa; assumption | fa; assumption | exact Hx |].
      assert (Hwko : wfk ko) by (eapply (ok_wf Hopd); [|exact Hx]; fa; assumption).
      exists (RRec ko' (TOp op [ks1'; ks2'] [t1'; t2'])). split; [rewrite Ho'; reflexivity|].
      split; [split; assumption|].
      intros venv venv' [Hd1 Hd2] vs Hrun. rewrite run_TOp2, Hx in Hrun. cbn in Hrun.
      destruct (run_tape O opd venv t1) as [a1|] eqn:Ht1; cbn in Hrun; [|discriminate].
      destruct (run_tape O opd venv t2) as [a2|] eqn:Ht2; cbn in Hrun; [|discriminate].
      destruct (Hd1 a1 Ht1) as [Hl1 [a1' [Ht1' [Hl1' Hp1]]]].
      destruct (Hd2 a2 Ht2) as [Hl2 [a2' [Ht2' [Hl2' Hp2v]]]].
      destruct (callnode2 op (combine ks1 a1) (combine ks2 a2) (combine ko vs) ks1' a1' ks2' a2')
        as [ko2 [f2 [vs' [E1 [E2 [E3 [E4 E5]]]]]]]; try assumption.
      - apply wfm_combine; assumption.
      - exact (wfk_perm ks1 ks1' Hk Hp).
      - apply wfm_combine; assumption.
      - exact (wfk_perm ks2 ks2' Hk2 Hp2).
      - apply (call2_intro op _ _ ko f vs); [rewrite !keys_combine by assumption; exact Hx | rewrite !vals_combine by assumption; exact Hrun].
      - rewrite Ho' in E1. inversion E1; subst ko2 f2.
        split.
        + eapply (ok_len Hopd); [exact Hx | | exact Hrun]. fa; assumption.
        + exists vs'. rewrite run_TOp2, Ho'. cbn. rewrite Ht1', Ht2'. cbn. repeat split; assumption. }
    destruct r2 as [c|ks2 t2], r2' as [c'|ks2' t2']; cbn in Hr; try contradiction.
    - subst c'. cbn in H. inv_bind H. destruct x as [ko f]. inversion H; subst q. clear H.
      destruct (Hgen [0] (TNum c) [0] (TNum c) wfk_0 (Permutation_refl _) ko f Hx) as [q' [E [Hs Hd]]].
      exists q'. split; [exact E|]. split; [exact Hs|].
      intros venv venv' [Hd1 _]. apply Hd. split; [exact Hd1|].
      intros vs Hv. cbn in Hv. inversion Hv; subst vs. split; [reflexivity|].
      exists [c]. cbn. repeat split; auto.
    - destruct Hr as [Hk2 Hp2]. cbn in H. inv_bind H. destruct x as [ko f]. inversion H; subst q. clear H.
      exact (Hgen ks2 t2 ks2' t2' Hk2 Hp2 ko f Hx).
  Qed.

  Local Notation rv := (@rval R).
  Definition RR1 (F : rv -> res rv) : Prop :=
    forall r r' q, RRs r r' -> F r = Ok q ->
      exists q', F r' = Ok q' /\ RRs q q' /\ forall venv venv', RRd venv venv' r r' -> RRd venv venv' q q'.
  Definition RR2 (F : rv -> rv -> res rv) : Prop :=
    forall r1 r1' r2 r2' q, RRs r1 r1' -> RRs r2 r2' -> F r1 r2 = Ok q ->
      exists q', F r1' r2' = Ok q' /\ RRs q q' /\
        forall venv venv', RRd venv venv' r1 r1' -> RRd venv venv' r2 r2' -> RRd venv venv' q q'.

  Lemma RR1_bind F G : RR1 F -> RR1 G -> RR1 (fun r => x <- F r ;; G x).
  Proof.
    intros HF HG r r' q Hr H. inv_bind H.
    destruct (HF r r' x Hr Hx) as [x' [E1 [S1 D1]]].
    destruct (HG x x' q S1 H) as [q' [E2 [S2 D2]]].
    exists q'. rewrite E1. cbn. split; [exact E2|]. split; [exact S2|]. intros; apply D2, D1; assumption.
  Qed.

  Lemma rr_meth1 m : RR1 (rec_meth1 opd tape_methods m).
  Proof.
    intros r r' q Hr H. destruct r as [c|ks t], r' as [c'|ks' t']; cbn in Hr; try contradiction; cbn in H; try discriminate.
    destruct Hr as [Hk Hp]. cbn.
    destruct (mlookup m tape_methods) as [[[op sw] [|[|ar]]]|]; try discriminate.
    destruct (rr_unary op ks t ks' t' q Hk Hp H) as [q' [E [S D]]]. exists q'. auto.
  Qed.
  Lemma rr_meth2tab m : RR2 (rec_meth2tab opd tape_methods m).
  Proof.
    intros r1 r1' r2 r2' q Hr1 Hr2 H.
    destruct r1 as [c|ks t], r1' as [c'|ks' t']; cbn in Hr1; try contradiction; cbn in H; try discriminate.
    destruct Hr1 as [Hk Hp]. cbn.
    destruct (mlookup m tape_methods) as [[[op sw] [|[|[|ar]]]]|]; try discriminate.
    destruct (rr_binary op ks t ks' t' r2 r2' q Hk Hp Hr2 H) as [q' [E [S D]]]. exists q'.
    split; [exact E|]. split; [exact S|]. intros. apply D. split; assumption.
  Qed.
  Lemma RRs_shape (r r' : rv) : RRs r r' -> is_rec r = is_rec r'.
  Proof. destruct r, r'; cbn; tauto. Qed.
  Lemma rr_special m : RR2 (rec_special opd tape_methods m).
  Proof.
    intros r1 r1' r2 r2' q Hr1 Hr2 H. unfold rec_special in *.
    destruct (String.eqb m "__rsub__").
    - inv_bindn H as n Hn. destruct (rr_meth1 "__neg__" r1 r1' n Hr1 Hn) as [n' [E1 [S1 D1]]]. rewrite E1. cbn [bind].
      destruct r2 as [c|k2 t2], r2' as [c'|k2' t2']; cbn in Hr2; try contradiction.
      + destruct (rr_meth2tab "__radd__" n n' (RNum c) (RNum c') q S1 Hr2 H) as [q' [E [S D]]].
        exists q'. split; [exact E|]. split; [exact S|]. intros. apply D; [apply D1|]; assumption.
      + destruct (rr_meth2tab "__add__" (RRec k2 t2) (RRec k2' t2') n n' q Hr2 S1 H) as [q' [E [S D]]].
        exists q'. split; [exact E|]. split; [exact S|]. intros. apply D; [|apply D1]; assumption.
    - destruct (String.eqb m "__rmul__").
      + destruct r2 as [c|k2 t2], r2' as [c'|k2' t2']; cbn in Hr2; try contradiction.
        * destruct (rr_meth2tab "gp" r1 r1' (RNum c) (RNum c') q Hr1 Hr2 H) as [q' [E [S D]]]. exists q'. auto.
        * destruct (rr_meth2tab "gp" (RRec k2 t2) (RRec k2' t2') r1 r1' q Hr2 Hr1 H) as [q' [E [S D]]]. exists q'. auto.
      + destruct (String.eqb m "__rxor__"); [|discriminate].
        destruct r2 as [c|k2 t2], r2' as [c'|k2' t2']; cbn in Hr2; try contradiction.
        * destruct (rr_meth2tab "op" r1 r1' (RNum c) (RNum c') q Hr1 Hr2 H) as [q' [E [S D]]]. exists q'. auto.
        * destruct (rr_meth2tab "op" (RRec k2 t2) (RRec k2' t2') r1 r1' q Hr2 Hr1 H) as [q' [E [S D]]]. exists q'. auto.
  Qed.
  Lemma rr_meth2 m : RR2 (rec_meth2 opd tape_methods m).
  Proof.
    intros r1 r1' r2 r2' q Hr1 Hr2 H.
    destruct r1 as [c|ks t], r1' as [c'|ks' t']; cbn in Hr1; try contradiction; cbn [rec_meth2] in H |- *; try discriminate.
    destruct (mlookup m tape_methods).
    - exact (rr_meth2tab m (RRec ks t) (RRec ks' t') r2 r2' q Hr1 Hr2 H).
    - exact (rr_special m (RRec ks t) (RRec ks' t') r2 r2' q Hr1 Hr2 H).
  Qed.
  Lemma rr_prefix u : RR1 (rec_prefix O opd tape_methods u).
  Proof.
    intros r r' q Hr H. destruct r as [c|ks t], r' as [c'|ks' t']; cbn in Hr; try contradiction.
    - subst c'. cbn in *. destruct u; [|discriminate]. inversion H; subst. exists (RNum (ropp c)). cbn. auto.
    - exact (rr_meth1 (pdunder u) (RRec ks t) (RRec ks' t') q Hr H).
  Qed.
  Lemma rr_infix o : RR2 (rec_infix O opd tape_methods o).
  Proof.
    intros r1 r1' r2 r2' q Hr1 Hr2 H.
    destruct r1 as [a|ks1 t1], r1' as [a'|ks1' t1']; cbn in Hr1; try contradiction.
    - subst a'. destruct r2 as [b|ks2 t2], r2' as [b'|ks2' t2']; cbn in Hr2; try contradiction.
      + subst b'. cbn in *.
        destruct o; try discriminate; inversion H; subst;
          (eexists; split; [reflexivity|]; split; [reflexivity | intros; exact I]).
      + cbn [rec_infix] in H |- *.
        destruct (rr_meth2 (rdunder o) (RRec ks2 t2) (RRec ks2' t2') (RNum a) (RNum a) q Hr2 eq_refl H) as [q' [E [S D]]].
        exists q'. split; [exact E|]. split; [exact S|]. intros. apply D; [assumption | exact I].
    - exact (rr_meth2 (dunder o) (RRec ks1 t1) (RRec ks1' t1') r2 r2' q Hr1 Hr2 H).
  Qed.

  Lemma rr_pow_loop n x x' : RRs x x' ->
    forall acc acc' q, RRs acc acc' ->
      pow_loop n (fun a => rec_meth2 opd tape_methods "gp" a x) acc = Ok q ->
      exists q', pow_loop n (fun a => rec_meth2 opd tape_methods "gp" a x') acc' = Ok q' /\ RRs q q' /\
        forall venv venv', RRd venv venv' x x' -> RRd venv venv' acc acc' -> RRd venv venv' q q'.
  Proof.
    intros Hx. induction n as [|n IH]; intros acc acc' q Ha H; cbn in *.
    - inversion H; subst. exists acc'. auto.
    - inv_bind H. destruct (rr_meth2 "gp" acc acc' x x' x0 Ha Hx Hx0) as [y' [E1 [S1 D1]]].
      rewrite E1. cbn. destruct (IH x0 y' q S1 H) as [q' [E2 [S2 D2]]].
      exists q'. split; [exact E2|]. split; [exact S2|]. intros. apply D2; [assumption|]. apply D1; assumption.
  Qed.
  Lemma rr_pow n : RR1 (fun r => rec_pow opd tape_methods r n).
  Proof.
    intros r r' q Hr H. destruct r as [c|ks t], r' as [c'|ks' t']; cbn in Hr; try contradiction; cbn [rec_pow] in H; try discriminate.
    cbn [rec_pow]. destruct (n =? 0).
    - inversion H; subst. exists (RRec [0] TOne). split; [reflexivity|]. split; [split; [exact wfk_0 | apply Permutation_refl]|].
      intros venv venv' _ vs Hv. cbn in Hv. inversion Hv; subst. split; [reflexivity|]. exists [rI]. cbn. auto.
    - inv_bind H. destruct (n <? 0).
      + destruct (rr_meth1 "inv" (RRec ks t) (RRec ks' t') x Hr Hx) as [x' [E1 [S1 D1]]]. rewrite E1. cbn [bind].
        destruct (rr_pow_loop _ x x' S1 x x' q S1 H) as [q' [E2 [S2 D2]]].
        exists q'. split; [exact E2|]. split; [exact S2|]. intros. apply D2; apply D1; assumption.
      + inversion Hx; subst x. cbn [bind].
        destruct (rr_pow_loop _ (RRec ks t) (RRec ks' t') Hr (RRec ks t) (RRec ks' t') q Hr H) as [q' [E2 [S2 D2]]].
        exists q'. split; [exact E2|]. split; [exact S2|]. intros. apply D2; assumption.
  Qed.

  Lemma rr_dual un k : RR1 (fun r => rec_dual A opd tape_methods un r k).
  Proof.
    intros r r' q Hr H. destruct r as [c|ks t], r' as [c'|ks' t']; cbn in Hr; try contradiction; cbn [rec_dual] in H; try discriminate.
    cbn [rec_dual]. inv_bind H. rewrite Hx. cbn [bind]. exact (rr_meth1 x (RRec ks t) (RRec ks' t') q Hr H).
  Qed.
  Lemma rr_norm : RR1 (rec_norm opd tape_methods).
  Proof. unfold rec_norm. apply RR1_bind; apply rr_meth1. Qed.
  Lemma rr_normalized : RR1 (rec_normalized O opd tape_methods).
  Proof.
    intros r r' q Hr H. destruct r as [c|ks t], r' as [c'|ks' t']; cbn in Hr; try contradiction; cbn [rec_normalized] in H; try discriminate.
    cbn [rec_normalized]. inv_bind H.
    destruct (rr_norm (RRec ks t) (RRec ks' t') x Hr Hx) as [x' [E1 [S1 D1]]]. rewrite E1. cbn [bind].
    destruct (rr_infix IDiv (RRec ks t) (RRec ks' t') x x' q Hr S1 H) as [q' [E2 [S2 D2]]].
    exists q'. split; [exact E2|]. split; [exact S2|]. intros. apply D2; [assumption | apply D1; assumption].
  Qed.

  (* grade selection on the recorder: positions of the kept keys / the values at those positions *)
  Definition selv (P : Z -> bool) (ks : list Z) (vs : list R) : list R :=
    map snd (filter (fun kv => P (fst kv)) (combine ks vs)).
  Lemma enum_filter_keys (P : Z -> bool) ks i :
    map snd (filter (fun p : nat * Z => P (snd p)) (enum_from i ks)) = filter P ks.
  Proof.
    revert i. induction ks as [|k ks IH]; intros i; cbn; [reflexivity|].
    destruct (P k); cbn; rewrite IH; reflexivity.
  Qed.
  Lemma enum_filter_vals (P : Z -> bool) ks : forall vs pre, length vs = length ks ->
    mapM (fun j => of_opt EIndex (nth_error (pre ++ vs)%list j))
         (map fst (filter (fun p : nat * Z => P (snd p)) (enum_from (length pre) ks))) = Ok (selv P ks vs).
  Proof.
    induction ks as [|k ks IH]; intros [|v vs] pre Hl; cbn in Hl; try discriminate; [reflexivity|].
    assert (E : (pre ++ v :: vs = (pre ++ [v]) ++ vs)%list) by (rewrite <- app_assoc; reflexivity).
    assert (El : S (length pre) = length (pre ++ [v])%list) by (rewrite app_length; cbn; lia).
    unfold selv. cbn [enum_from filter combine fst snd]. destruct (P k); cbn [map mapM fst snd].
    - rewrite nth_error_app2 by lia. rewrite Nat.sub_diag. cbn [nth_error of_opt bind].
      rewrite E, El. rewrite (IH vs (pre ++ [v])%list) by lia. reflexivity.
    - rewrite E, El. apply IH. lia.
  Qed.
  Lemma enum_filter_vals0 (P : Z -> bool) ks vs : length vs = length ks ->
    mapM (fun j => of_opt EIndex (nth_error vs j))
         (map fst (filter (fun p : nat * Z => P (snd p)) (enum_from 0 ks))) = Ok (selv P ks vs).
  Proof. intros Hl. exact (enum_filter_vals P ks vs [] Hl). Qed.
  Lemma selv_combine (P : Z -> bool) ks vs : length vs = length ks ->
    combine (filter P ks) (selv P ks vs) = filter (fun kv => P (fst kv)) (combine ks vs)
    /\ length (selv P ks vs) = length (filter P ks).
  Proof.
    revert vs. induction ks as [|k ks IH]; intros [|v vs] Hl; cbn in Hl; try discriminate; [split; reflexivity|].
    destruct (IH vs) as [E1 E2]; [lia|]. unfold selv in *. cbn. destruct (P k); cbn; [rewrite E1, E2|]; auto.
  Qed.
  Lemma wfk_filter P ks : wfk ks -> wfk (filter P ks).
  Proof.
    intros [Hn Hi]. split; [apply NoDup_filter; exact Hn|]. intros k Hk. apply filter_In in Hk. apply Hi, Hk.
  Qed.
  Lemma run_TSel venv t idxs : run venv (TSel t idxs) =
    (vs <- run venv t ;; mapM (fun i => of_opt EIndex (nth_error vs i)) idxs).
  Proof. reflexivity. Qed.
  Lemma run_TIdx venv neg t idx : run venv (TIdx neg t idx) =
    (vs <- run venv t ;; v <- of_opt EIndex (nth_error vs idx) ;; Ok [if neg then ropp v else v]).
  Proof. reflexivity. Qed.

  Lemma rr_grade gs : RR1 (fun r => rec_grade A r gs).
  Proof.
    intros r r' q Hr H. destruct r as [c|ks t], r' as [c'|ks' t']; cbn in Hr; try contradiction; cbn [rec_grade] in H; try discriminate.
    destruct Hr as [Hk Hp]. cbn [rec_grade]. inv_bind H. rewrite Hx. cbn [bind]. inversion H; subst q. clear H.
    eexists. split; [reflexivity|]. rewrite !(enum_filter_keys (fun k => zin k x)).
    split; [split; [apply wfk_filter; exact Hk | apply Permutation_filter'; exact Hp]|].
    intros venv venv' Hd vs Hrun. rewrite run_TSel in Hrun. inv_bind Hrun.
    destruct (Hd x0 Hx0) as [Hl [a' [Ht' [Hl' Hpa]]]].
    rewrite (enum_filter_vals0 (fun k => zin k x) ks x0 Hl) in Hrun. inversion Hrun; subst vs. clear Hrun.
    destruct (selv_combine (fun k => zin k x) ks x0 Hl) as [E1 E2].
    destruct (selv_combine (fun k => zin k x) ks' a' Hl') as [E1' E2'].
    split; [exact E2|]. exists (selv (fun k => zin k x) ks' a'). rewrite run_TSel, Ht'. cbn [bind].
    split; [exact (enum_filter_vals0 (fun k => zin k x) ks' a' Hl')|]. split; [exact E2'|].
    rewrite E1, E1'. apply Permutation_filter'. exact Hpa.
  Qed.

  Lemma zindex_perm b ks ks' : Permutation ks ks' -> (zindex b ks = None <-> zindex b ks' = None).
  Proof.
    intros Hp. rewrite !zindex_none. split; intros H Hin; apply H.
    - eapply Permutation_in; [apply Permutation_sym; exact Hp | exact Hin].
    - eapply Permutation_in; [exact Hp | exact Hin].
  Qed.
  (* the value a recorder index denotes: the coefficient stored under that key *)
  Lemma idx_value b ks idx (a : list R) : zindex b ks = Some idx -> length a = length ks ->
    exists v, nth_error a idx = Some v /\ In (b, v) (combine ks a).
  Proof. intros Hz Hl. apply nth_combine; [exact Hl | apply zindex_some; exact Hz]. Qed.

  Lemma rr_getattr nm : RR1 (fun r => rec_getattr A r nm).
  Proof.
    intros r r' q Hr H. destruct r as [c|ks t], r' as [c'|ks' t']; cbn in Hr; try contradiction; cbn [rec_getattr] in H; try discriminate.
    destruct Hr as [Hk Hp]. cbn [rec_getattr].
    assert (Hzero : exists q', Ok (RRec [0] (@TZero R)) = Ok q' /\ RRs (RRec [0] TZero) q' /\
                      forall venv venv', RRd venv venv' (RRec ks t) (RRec ks' t') -> RRd venv venv' (RRec [0] TZero) q').
    { exists (RRec [0] TZero). split; [reflexivity|]. split; [split; [exact wfk_0 | apply Permutation_refl]|].
      intros venv venv' _ vs Hv. cbn in Hv. inversion Hv; subst. split; [reflexivity|]. exists [rO]. cbn. auto. }
    destruct (blade2canon A nm) as [[cn|] swaps]; [|inversion H; subst; exact Hzero].
    destruct (canon2bin A cn) as [b|]; [|inversion H; subst; exact Hzero].
    destruct (zindex b ks) as [idx|] eqn:Hz.
    - destruct (zindex b ks') as [idx'|] eqn:Hz'; [|apply (zindex_perm b ks ks' Hp) in Hz'; congruence].
      inversion H; subst q. clear H. eexists. split; [reflexivity|]. split; [split; [exact wfk_0 | apply Permutation_refl]|].
      intros venv venv' Hd vs Hrun. rewrite run_TIdx in Hrun. inv_bind Hrun. inv_bind Hrun. inversion Hrun; subst vs. clear Hrun.
      destruct (Hd x Hx) as [Hl [a' [Ht' [Hl' Hpa]]]].
      destruct (idx_value b ks idx x Hz Hl) as [v [Hv Hin]].
      destruct (idx_value b ks' idx' a' Hz' Hl') as [v' [Hv' Hin']].
      rewrite Hv in Hx0. cbn in Hx0. inversion Hx0; subst x0.
      assert (v = v').
      { eapply (in_keys_unique (combine ks' a') b); [rewrite keys_combine by exact Hl'; apply (wfk_perm ks ks' Hk Hp) | | exact Hin'].
        eapply Permutation_in; [exact Hpa | exact Hin]. }
      subst v'. split; [reflexivity|]. eexists. rewrite run_TIdx, Ht'. cbn [bind]. rewrite Hv'. cbn [of_opt bind].
      split; [reflexivity|]. split; [reflexivity | apply Permutation_refl].
    - assert (Hz' : zindex b ks' = None) by (apply (zindex_perm b ks ks' Hp); exact Hz). rewrite Hz'.
      inversion H; subst; exact Hzero.
  Qed.

  (* the value lists bound to the parameters, related position by position *)
  Definition EnvD (kenv kenv' : list (list Z)) (venv venv' : list (list R)) : Prop :=
    forall i ks ks', nth_error kenv i = Some ks -> nth_error kenv' i = Some ks' ->
      RRd venv venv' (RRec ks (TArg i)) (RRec ks' (TArg i)).

  Lemma Forall2_nth {X Y} (P : X -> Y -> Prop) l l' i x :
    Forall2 P l l' -> nth_error l i = Some x -> exists y, nth_error l' i = Some y /\ P x y.
  Proof.
    intros H. revert i. induction H as [|a b l l' Hab H IH]; intros [|i] Hn; cbn in *; try discriminate.
    - inversion Hn; subst. eauto.
    - apply IH. exact Hn.
  Qed.
  Lemma Forall_nth {X} (P : X -> Prop) l i x : Forall P l -> nth_error l i = Some x -> P x.
  Proof. intros H Hn. eapply Forall_forall; [exact H | eapply nth_error_In; exact Hn]. Qed.

  Lemma run_TCall venv k kin tb ts : run venv (TCall k kin tb ts) = (args <- mapM (run venv) ts ;; run args tb).
  Proof.
    cbn.
    match goal with |- bind (?F ts) _ = _ =>
      assert (E : F ts = mapM (run_tape O opd venv) ts)
        by (induction ts as [|t0 ts IH]; [reflexivity | cbn; rewrite IH; reflexivity]) end.
    rewrite E. reflexivity.
  Qed.

  Definition mk (kt : list Z * tape R) : rv := RRec (fst kt) (snd kt).
  Lemma asrec_RRs (r r' : rv) : RRs r r' -> RRs (mk (as_rec r)) (mk (as_rec r')).
  Proof.
    destruct r as [c|ks t], r' as [c'|ks' t']; cbn; try contradiction; [|tauto].
    intros _. split; [exact wfk_0 | apply Permutation_refl].
  Qed.
  Lemma asrec_RRd venv venv' (r r' : rv) : RRs r r' -> RRd venv venv' r r' -> RRd venv venv' (mk (as_rec r)) (mk (as_rec r')).
  Proof.
    destruct r as [c|ks t], r' as [c'|ks' t']; cbn [RRs]; try contradiction; [|intros _ H; exact H].
    intros E _. subst c'. intros vs Hv. cbn in Hv. inversion Hv; subst. split; [reflexivity|]. exists [c]. cbn. auto.
  Qed.
  Lemma Forall2_asrec (P : rv -> rv -> Prop) rs rs' :
    (forall r r', RRs r r' -> P r r' -> P (mk (as_rec r)) (mk (as_rec r'))) ->
    Forall2 RRs rs rs' -> Forall2 P rs rs' -> Forall2 P (map mk (map as_rec rs)) (map mk (map as_rec rs')).
  Proof.
    intros HP HS. induction HS as [|r r' l l' Hr HS IH]; intros HF; inversion HF; subst; cbn; constructor; auto.
  Qed.
  Lemma existsb_isrec_RRs rs rs' : Forall2 RRs rs rs' -> existsb is_rec rs = existsb is_rec rs'.
  Proof. induction 1 as [|r r' l l' Hr HS IH]; cbn; [reflexivity|]. rewrite IH, (RRs_shape r r' Hr). reflexivity. Qed.
  Lemma mapM_run_rel venv venv' kts kts' args :
    Forall2 RRs (map mk kts) (map mk kts') -> Forall2 (RRd venv venv') (map mk kts) (map mk kts') ->
    mapM (run venv) (map snd kts) = Ok args ->
    exists args', mapM (run venv') (map snd kts') = Ok args' /\ EnvD (map fst kts) (map fst kts') args args'.
  Proof.
    revert kts' args. induction kts as [|[ks t] kts IH]; intros [|[ks' t'] kts'] args HS HD H;
      inversion HS as [|? ? ? ? HS1 HS2]; inversion HD as [|? ? ? ? HD1 HD2]; subst.
    - cbn in H. inversion H; subst. exists []. split; [reflexivity|]. intros [|i] ? ? Hn; discriminate.
    - cbn [map mapM snd] in H. inv_bind H. inv_bind H. inversion H; subst args. clear H.
      unfold mk in HD1. cbn [fst snd] in HD1, Hx. destruct (HD1 x Hx) as [Hl [a' [Ht' [Hl' Hpa]]]].
      destruct (IH kts' x0 HS2 HD2 Hx0) as [args' [E HE]].
      exists (a' :: args'). cbn [map mapM snd]. rewrite Ht'. cbn [bind]. rewrite E. cbn [bind]. split; [reflexivity|].
      intros [|i] k1 k1' Hn Hn'; cbn [map fst nth_error] in Hn, Hn'.
      + inversion Hn; inversion Hn'; subst. intros vs Hv. cbn in Hv. inversion Hv; subst vs.
        split; [exact Hl|]. exists a'. cbn. auto.
      + intros vs Hv. cbn in Hv. destruct (HE i k1 k1' Hn Hn' vs) as [Hlv [vs' [Hv' R']]]; [cbn; exact Hv|].
        split; [exact Hlv|]. exists vs'. cbn. cbn in Hv'. auto.
  Qed.

  (* G2 *)
  Theorem record_perm : forall fuel e kenv kenv' r,
    Forall wfk kenv -> Forall2 (@Permutation Z) kenv kenv' ->
    rec_ fuel kenv e = Ok r ->
    exists r', rec_ fuel kenv' e = Ok r' /\ RRs r r' /\
      forall venv venv', EnvD kenv kenv' venv venv' -> RRd venv venv' r r'.
  Proof.
    induction fuel as [|fu IH]; intros e kenv kenv' r Hk Hp H; [discriminate|].
    assert (U1 : forall F e1, RR1 F ->
              (x <- rec_ fu kenv e1 ;; F x) = Ok r ->
              exists r', (x <- rec_ fu kenv' e1 ;; F x) = Ok r' /\ RRs r r' /\
                forall venv venv', EnvD kenv kenv' venv venv' -> RRd venv venv' r r').
    { intros F e1 HF H1. inv_bind H1.
      destruct (IH e1 kenv kenv' x Hk Hp Hx) as [x' [E [S D]]]. rewrite E. cbn [bind].
      destruct (HF x x' r S H1) as [r' [E2 [S2 D2]]]. exists r'. split; [exact E2|]. split; [exact S2|].
      intros. apply D2, D. assumption. }
    assert (U2 : forall F e1 e2, RR2 F ->
              (x <- rec_ fu kenv e1 ;; y <- rec_ fu kenv e2 ;; F x y) = Ok r ->
              exists r', (x <- rec_ fu kenv' e1 ;; y <- rec_ fu kenv' e2 ;; F x y) = Ok r' /\ RRs r r' /\
                forall venv venv', EnvD kenv kenv' venv venv' -> RRd venv venv' r r').
    { intros F e1 e2 HF H1. inv_bind H1. inv_bind H1.
      destruct (IH e1 kenv kenv' x Hk Hp Hx) as [x' [E [S D]]]. rewrite E. cbn [bind].
      destruct (IH e2 kenv kenv' x0 Hk Hp Hx0) as [y' [E' [S' D']]]. rewrite E'. cbn [bind].
      destruct (HF x x' x0 y' r S S' H1) as [r' [E2 [S2 D2]]]. exists r'. split; [exact E2|]. split; [exact S2|].
      intros. apply D2; [apply D | apply D']; assumption. }
    destruct e; cbn [record] in H |- *.
    - (* EArg *)
      inv_bind H. inversion H; subst r. clear H.
      destruct (nth_error kenv i) as [ks|] eqn:Hn; cbn in Hx; [|discriminate]. inversion Hx; subst x.
      destruct (Forall2_nth _ _ _ i ks Hp Hn) as [ks' [Hn' Hpk]]. rewrite Hn'. cbn.
      exists (RRec ks' (TArg i)). split; [reflexivity|]. split; [split; [exact (Forall_nth _ _ _ _ Hk Hn) | exact Hpk]|].
      intros venv venv' HE. exact (HE i ks ks' Hn Hn').
    - (* ENum *) inversion H; subst. exists (RNum c). cbn. auto.
    - exact (U1 _ e (rr_meth1 m) H).
    - exact (U2 _ e1 e2 (rr_meth2 m) H).
    - exact (U1 _ e (rr_prefix u) H).
    - exact (U2 _ e1 e2 (rr_infix o) H).
    - exact (U1 _ e (rr_pow n) H).
    - exact (U1 _ e (rr_grade gs) H).
    - exact (U1 _ e (rr_getattr nm) H).
    - exact (U1 _ e (rr_dual false k) H).
    - exact (U1 _ e (rr_dual true k) H).
    - exact (U1 _ e rr_norm H).
    - exact (U1 _ e rr_normalized H).
    - (* ECall *)
      inv_bindn H as rs Hrs.
      assert (HM : forall args rs, mapM (rec_ fu kenv) args = Ok rs ->
                 exists rs', mapM (rec_ fu kenv') args = Ok rs' /\ Forall2 RRs rs rs' /\
                   forall venv venv', EnvD kenv kenv' venv venv' -> Forall2 (RRd venv venv') rs rs').
      { clear rs Hrs H. intros args0. induction args0 as [|a0 args0 IHa]; intros rs Hm; cbn [mapM] in Hm |- *.
        - inversion Hm; subst. exists []. split; [reflexivity|]. split; [constructor | intros; constructor].
        - inv_bindn Hm as y0 Hy0. inv_bindn Hm as ys Hys. inversion Hm; subst rs. clear Hm.
          destruct (IH a0 kenv kenv' y0 Hk Hp Hy0) as [x' [E [S D]]]. rewrite E. cbn [bind].
          destruct (IHa ys Hys) as [rs' [E' [S' D']]]. rewrite E'. cbn [bind].
          exists (x' :: rs'). split; [reflexivity|]. split; [constructor; assumption|].
          intros. constructor; [apply D | apply D']; assumption. }
      destruct (HM args rs Hrs) as [rs' [E [S D]]]. rewrite E. cbn [bind].
      rewrite <- (existsb_isrec_RRs rs rs' S). destruct (existsb is_rec rs); cbn [negb] in H |- *; [|discriminate].
      set (kts := map as_rec rs) in *. set (kts' := map as_rec rs').
      assert (S2 : Forall2 RRs (map mk kts) (map mk kts')).
      { apply Forall2_asrec; [intros; apply asrec_RRs; assumption | exact S | exact S]. }
      inv_bindn H as body Hbody. rewrite Hbody. cbn [bind]. inv_bindn H as rb Hrb.
      assert (Hkin : Forall wfk (map fst kts) /\ Forall2 (@Permutation Z) (map fst kts) (map fst kts')).
      { clear -S2. revert S2. generalize kts'. clear kts'. induction kts as [|[ks t] kts0 IHk]; intros [|[ks' t'] kts'] S;
          inversion S as [|? ? ? ? S1 S3]; subst; cbn.
        - split; constructor.
        - destruct (IHk kts' S3) as [F1 F2]. cbn in S1. destruct S1 as [W P]. split; constructor; assumption. }
      destruct Hkin as [Hkin Hpin].
      destruct (IH body (map fst kts) (map fst kts') rb Hkin Hpin Hrb) as [rb' [Eb [Sb Db]]]. rewrite Eb. cbn [bind].
      destruct rb as [c|ko tb]; [discriminate|]. destruct rb' as [c'|ko' tb']; [contradiction|].
      inversion H; subst r. clear H.
      exists (RRec ko' (TCall k (map fst kts') tb' (map snd kts'))). split; [reflexivity|]. split; [exact Sb|].
      intros venv venv' HE vs Hrun. rewrite run_TCall in Hrun. inv_bindn Hrun as cargs Hcargs.
      assert (D2 : Forall2 (RRd venv venv') (map mk kts) (map mk kts')).
      { apply Forall2_asrec; [intros; apply asrec_RRd; assumption | exact S | exact (D venv venv' HE)]. }
      destruct (mapM_run_rel venv venv' kts kts' cargs S2 D2 Hcargs) as [args' [Ea HEa]].
      destruct (Db cargs args' HEa vs Hrun) as [Hl [vs' [Hv' R']]].
      split; [exact Hl|]. exists vs'. rewrite run_TCall, Ea. cbn [bind]. split; [exact Hv' | exact R'].
  Qed.

  (* the arguments of a call as recorder environment *)
  Lemma nth_map_inv {X Y} (f : X -> Y) l i y : nth_error (map f l) i = Some y -> exists x, nth_error l i = Some x /\ y = f x.
  Proof.
    revert i. induction l as [|a l IH]; intros [|i] H; cbn in H; try discriminate.
    - inversion H. exists a. auto.
    - apply IH. exact H.
  Qed.
  Lemma EnvD_mvs xs xs' : Forall2 (@Permutation (Z * R)) xs xs' ->
    EnvD (map keys xs) (map keys xs') (map vals xs) (map vals xs').
  Proof.
    intros Hp i ks ks' Hn Hn' vs Hv. cbn in Hv.
    destruct (nth_map_inv _ _ _ _ Hn) as [x [Ex Ek]].
    destruct (nth_map_inv _ _ _ _ Hn') as [x' [Ex' Ek']].
    destruct (nth_error (map vals xs) i) as [vs0|] eqn:Ev; cbn in Hv; [|discriminate]. inversion Hv; subst vs0.
    destruct (nth_map_inv _ _ _ _ Ev) as [x0 [Ex0 Ev0]].
    assert (x0 = x) by (pose proof (eq_trans (eq_sym Ex0) Ex) as E0; inversion E0; reflexivity). subst x0.
    destruct (Forall2_nth _ _ _ i x Hp Ex) as [x1 [Ex1 Hpx]].
    assert (x1 = x') by (pose proof (eq_trans (eq_sym Ex1) Ex') as E0; inversion E0; reflexivity). subst x1. subst ks ks' vs.
    split; [rewrite length_vals, length_keys; reflexivity|].
    exists (vals x'). cbn. rewrite (map_nth_error vals i xs' Ex'). cbn. split; [reflexivity|].
    split; [rewrite length_vals, length_keys; reflexivity|]. rewrite !combine_keys_vals. exact Hpx.
  Qed.
  Lemma Forall_wfk_keys xs : Forall wfm xs -> Forall wfk (map keys xs).
  Proof. intros H. apply Forall_forall. intros ks Hk. apply in_map_iff in Hk. destruct Hk as [x [E Hx]]. subst.
    eapply Forall_forall in H; [exact H | exact Hx]. Qed.
  Lemma Forall2_perm_keys xs xs' : Forall2 (@Permutation (Z * R)) xs xs' -> Forall2 (@Permutation Z) (map keys xs) (map keys xs').
  Proof. induction 1; cbn; constructor; [apply perm_keys|]; assumption. Qed.

  (* Registry.__call__ does not depend on the storage order of its arguments, and returns a well-formed
     multivector *)
  Theorem registered_perm fuel k xs xs' m : Forall wfm xs -> Forall2 (@Permutation (Z * R)) xs xs' ->
    reg fuel k xs = Ok m ->
    wfm m /\ exists body ko' tb' vs',
      nth_error bodies k = Some body /\ rec_ fuel (map keys xs') body = Ok (RRec ko' tb') /\
      run (map vals xs') tb' = Ok vs' /\ length vs' = length ko' /\ wfk ko' /\ Permutation m (combine ko' vs').
  Proof.
    intros Hw Hp H. unfold registered, compile in H.
    inv_bindn H as kt Hkt. destruct kt as [ko tb]. inv_bindn Hkt as body Hbody. inv_bindn Hkt as rb Hrb.
    destruct rb as [c|ko0 tb0]; [discriminate|]. inversion Hkt; subst ko0 tb0. clear Hkt.
    inv_bindn H as vs Hvs. inversion H; subst m. clear H.
    destruct (nth_error bodies k) as [b|] eqn:Eb; cbn in Hbody; [|discriminate]. inversion Hbody; subst b.
    destruct (record_perm fuel body (map keys xs) (map keys xs') (RRec ko tb)
                (Forall_wfk_keys xs Hw) (Forall2_perm_keys xs xs' Hp) Hrb) as [r' [E [S D]]].
    destruct r' as [c'|ko' tb']; [contradiction|]. destruct S as [Wko Pko].
    destruct (D _ _ (EnvD_mvs xs xs' Hp) vs Hvs) as [Hl [vs' [Hv' [Hl' Hpv]]]].
    split; [apply wfm_combine; assumption|].
    exists body, ko', tb', vs'. repeat split; try assumption. exact (proj1 (wfk_perm ko ko' Wko Pko)). apply (wfk_perm ko ko' Wko Pko).
  Qed.

  (* ---------------- G1: the plain function versus the recorder run ---------------- *)
  Local Notation vl := (@val R).
  Definition wfv (v : vl) : Prop := wfm (as_mv v).
  Section G1.
  Variable venv' : list (list R).      (* the value lists the compiled function is called with *)
  Definition DS (v : vl) (r : rv) : Prop :=
    match r with
    | RNum c => v = VNum c
    | RRec ks t => wfk ks /\ exists vs, run venv' t = Ok vs /\ length vs = length ks /\ Permutation (as_mv v) (combine ks vs)
    end.
  Definition is_rnum (r : rv) : bool := match r with RNum _ => true | RRec _ _ => false end.
  (* what one step of the simulation delivers: the plain value is well-formed; if the recorder returns, its
     value denotes the same multivector and has the expected kind; if it raises, the construct is not in the
     supported fragment *)
  Definition Step (v' : vl) (rq : res rv) (nb sup : bool) : Prop :=
    wfv v' /\ match rq with Ok q => DS v' q /\ is_rnum q = nb | Err _ => sup = false end.

  Lemma Step_weaken v' rq nb sup b : Step v' rq nb sup -> Step v' rq nb (b && sup).
  Proof. intros [H1 H2]. split; [exact H1|]. destruct rq; [exact H2 | subst; apply andb_false_r]. Qed.

  Lemma DS_perm v v0 ks t : DS v (RRec ks t) -> Permutation (as_mv v0) (as_mv v) -> DS v0 (RRec ks t).
  Proof.
    intros [Hk [vs [Hr [Hl Hp]]]] Hq. split; [exact Hk|]. exists vs. repeat split; try assumption.
    eapply Permutation_trans; eassumption.
  Qed.
  Lemma wfv_num c : wfv (VNum c).
  Proof. apply wfm_scalar. Qed.

  (* an operator node of the tape against the operator call of the plain function *)
  Lemma ds_node1 op v ks t m : wfv v -> DS v (RRec ks t) -> call op [as_mv v] = Ok m ->
    wfm m /\ exists q, rec_unary opd op ks t = Ok q /\ DS (VMv m) q /\ is_rnum q = false.
  Proof.
    intros Hw [Hk [a [Hr [Hl Hp]]]] Hc.
    destruct (call_wf op [as_mv v] m) as [Hwm _]; [fa; exact Hw | exact Hc |].
    split; [exact Hwm|].
    destruct (callnode1 op (as_mv v) m ks a Hw Hk Hl Hp Hc) as [ko [f [vs [E1 [E2 [E3 [E4 E5]]]]]]].
    exists (RRec ko (TOp op [ks] [t])). unfold rec_unary. rewrite E1. cbn [bind]. split; [reflexivity|].
    split; [|reflexivity]. split; [exact E4|]. exists vs. rewrite run_TOp1, E1. cbn [bind]. rewrite Hr. cbn [bind].
    repeat split; assumption.
  Qed.
  Lemma ds_node2 op v1 v2 ks1 t1 r2 m : wfv v1 -> wfv v2 -> DS v1 (RRec ks1 t1) -> DS v2 r2 ->
    call op [as_mv v1; as_mv v2] = Ok m ->
    wfm m /\ exists q, rec_binary opd op ks1 t1 r2 = Ok q /\ DS (VMv m) q /\ is_rnum q = false.
  Proof.
    intros Hw1 Hw2 [Hk1 [a1 [Hr1 [Hl1 Hp1]]]] H2 Hc.
    destruct (call_wf op [as_mv v1; as_mv v2] m) as [Hwm _]; [fa; assumption | exact Hc |].
    split; [exact Hwm|].
    assert (Hgen : forall ks2 t2 a2, wfk ks2 -> run venv' t2 = Ok a2 -> length a2 = length ks2 ->
              Permutation (as_mv v2) (combine ks2 a2) ->
              exists q, ('(ko, _) <- opd op [ks1; ks2] ;; Ok (RRec ko (TOp op [ks1; ks2] [t1; t2]))) = Ok q /\
                        DS (VMv m) q /\ is_rnum q = false).
    { intros ks2 t2 a2 Hk2 Hr2 Hl2 Hp2.
      destruct (callnode2 op (as_mv v1) (as_mv v2) m ks1 a1 ks2 a2 Hw1 Hk1 Hl1 Hp1 Hw2 Hk2 Hl2 Hp2 Hc)
        as [ko [f [vs [E1 [E2 [E3 [E4 E5]]]]]]].
      exists (RRec ko (TOp op [ks1; ks2] [t1; t2])). rewrite E1. cbn [bind]. split; [reflexivity|].
      split; [|reflexivity]. split; [exact E4|]. exists vs. rewrite run_TOp2, E1. cbn [bind]. rewrite Hr1, Hr2. cbn [bind].
      repeat split; assumption. }
    destruct r2 as [c|ks2 t2]; cbn [DS] in H2.
    - subst v2. cbn [rec_binary]. apply (Hgen [0] (TNum c) [c] wfk_0); [reflexivity | reflexivity | apply Permutation_refl].
    - destruct H2 as [Hk2 [a2 [Hr2 [Hl2 Hp2]]]]. cbn [rec_binary]. exact (Hgen ks2 t2 a2 Hk2 Hr2 Hl2 Hp2).
  Qed.

  Lemma Step_ok v' q nb sup : wfv v' -> DS v' q -> is_rnum q = nb -> Step v' (Ok q) nb sup.
  Proof. intros. split; [assumption | split; assumption]. Qed.
  Lemma call_wfv op xs m : Forall wfm xs -> call op xs = Ok m -> wfv (VMv m).
  Proof. intros H1 H2. exact (proj1 (call_wf op xs m H1 H2)). Qed.

  (* node lemmas with the result transported along a storage permutation *)
  Lemma ds_node1' op v ks t m v0 sup : wfv v -> DS v (RRec ks t) -> call op [as_mv v] = Ok m ->
    Permutation (as_mv v0) m -> wfv v0 -> Step v0 (rec_unary opd op ks t) false sup.
  Proof.
    intros Hw Hd Hc Hp Hw0. destruct (ds_node1 op v ks t m Hw Hd Hc) as [_ [q [Eq [Dq Sq]]]]. rewrite Eq.
    destruct q as [c|kq tq]; [discriminate|]. apply Step_ok; [exact Hw0 | exact (DS_perm (VMv m) v0 kq tq Dq Hp) | reflexivity].
  Qed.
  Lemma ds_node2' op v1 v2 ks1 t1 r2 m v0 sup : wfv v1 -> wfv v2 -> DS v1 (RRec ks1 t1) -> DS v2 r2 ->
    call op [as_mv v1; as_mv v2] = Ok m -> Permutation (as_mv v0) m -> wfv v0 ->
    Step v0 (rec_binary opd op ks1 t1 r2) false sup.
  Proof.
    intros Hw1 Hw2 Hd1 Hd2 Hc Hp Hw0. destruct (ds_node2 op v1 v2 ks1 t1 r2 m Hw1 Hw2 Hd1 Hd2 Hc) as [_ [q [Eq [Dq Sq]]]].
    rewrite Eq. destruct q as [c|kq tq]; [discriminate|].
    apply Step_ok; [exact Hw0 | exact (DS_perm (VMv m) v0 kq tq Dq Hp) | reflexivity].
  Qed.

  Lemma ds_meth1 m v r v' : wfv v -> DS v r ->
    mv_meth1 opd mv_methods m v = Ok v' ->
    Step v' (rec_meth1 opd tape_methods m r) false (negb (is_rnum r) && is_un m).
  Proof.
    intros Hw Hd H. destruct v as [a|x]; [discriminate|]. cbn [mv_meth1] in H.
    destruct (mlookup m mv_methods) as [[[op sw] ar]|] eqn:Em; [|discriminate].
    destruct ar as [|[|ar]]; try discriminate. inv_bindn H as r0 Hr0. inversion H; subst v'. clear H.
    destruct r as [c|ks t]; [cbn in Hd; discriminate|].
    cbn [rec_meth1 is_rnum negb andb]. unfold is_un.
    destruct (mlookup m tape_methods) as [[[op' sw'] ar']|] eqn:Et.
    - destruct (tables_agree _ _ _ _ _ _ _ Em Et) as [E1 E2]. subst op' ar'.
      apply (ds_node1' op (VMv x) ks t r0 (VMv r0)); try assumption; [apply Permutation_refl|].
      apply (call_wfv op [x]); [fa; exact Hw | exact Hr0].
    - split; [|reflexivity]. apply (call_wfv op [x]); [fa; exact Hw | exact Hr0].
  Qed.

  Lemma ds_meth2 m v1 v2 r1 r2 v' : wfv v1 -> wfv v2 -> DS v1 r1 -> DS v2 r2 -> noswap_m m = true ->
    mv_meth2 opd mv_methods m v1 v2 = Ok v' ->
    Step v' (rec_meth2 opd tape_methods m r1 r2) false (negb (is_rnum r1) && is_bin m).
  Proof.
    intros Hw1 Hw2 Hd1 Hd2 Hns H. destruct v1 as [a|x]; [discriminate|]. cbn [mv_meth2] in H. unfold noswap_m in Hns.
    destruct (mlookup m mv_methods) as [[[op sw] ar]|] eqn:Em; [|discriminate].
    destruct sw; [discriminate|].
    destruct ar as [|[|[|ar]]]; try discriminate. inv_bindn H as r0 Hr0. inversion H; subst v'. clear H.
    destruct r1 as [c|ks t]; [cbn in Hd1; discriminate|].
    assert (Hwr : wfv (VMv r0)) by (apply (call_wfv op [x; as_mv v2]); [fa; assumption | exact Hr0]).
    cbn [rec_meth2 is_rnum negb andb]. unfold is_bin.
    destruct (mlookup m tape_methods) as [[[op' sw'] ar']|] eqn:Et.
    - destruct (tables_agree _ _ _ _ _ _ _ Em Et) as [E1 E2]. subst op' ar'.
      unfold rec_meth2tab. rewrite Et.
      apply (ds_node2' op (VMv x) v2 ks t r2 r0 (VMv r0)); try assumption. apply Permutation_refl.
    - (* not bound by partialmethod: one of the written-out reflected members (excluded: MultiVector swaps
         their operands) or no member at all *)
      assert (Hsp : forall nm, In nm ["__rsub__"; "__rmul__"; "__rxor__"] -> m <> nm).
      { intros nm Hin E. subst nm. destruct (lk_mv_special m Hin) as [op1 [ar1 E1]]. rewrite E1 in Em. discriminate. }
      unfold rec_special.
      destruct (String.eqb_spec m "__rsub__") as [E|_]; [exfalso; apply (Hsp "__rsub__"); cbn; auto|].
      destruct (String.eqb_spec m "__rmul__") as [E|_]; [exfalso; apply (Hsp "__rmul__"); cbn; auto|].
      destruct (String.eqb_spec m "__rxor__") as [E|_]; [exfalso; apply (Hsp "__rxor__"); cbn; auto|].
      split; [exact Hwr | reflexivity].
  Qed.

  Lemma lk_un m op : In (m, op) [("__neg__", "neg"); ("__invert__", "reverse"); ("inv", "inv"); ("normsq", "normsq");
      ("sqrt", "sqrt"); ("polarity", "polarity"); ("unpolarity", "unpolarity"); ("hodge", "hodge"); ("unhodge", "unhodge")] ->
    is_un m = true.
  Proof. intros H. unfold is_un. rewrite (proj2 (lk_mv_un m op H)). reflexivity. Qed.

  Lemma ds_prefix u v r v' : wfv v -> DS v r ->
    mv_prefix O opd mv_methods u v = Ok v' ->
    Step v' (rec_prefix O opd tape_methods u r) (is_rnum r && is_neg u) (if is_rnum r then is_neg u else true).
  Proof.
    intros Hw Hd H. destruct r as [c|ks t].
    - cbn in Hd. subst v. cbn in H |- *. destruct u; [|discriminate]. inversion H; subst.
      apply Step_ok; [apply wfv_num | reflexivity | reflexivity].
    - cbn [is_rnum andb]. cbn [rec_prefix]. destruct v as [a|x].
      + cbn in H. destruct u; [|discriminate]. inversion H; subst v'. clear H.
        cbn [pdunder rec_meth1]. rewrite (proj2 (lk_mv_un "__neg__" "neg" (or_introl eq_refl))).
        apply (ds_node1' "neg" (VNum a) ks t [(0, ropp a)] (VNum (ropp a))); try assumption.
        * apply (ok_s_neg Hopd).
        * apply Permutation_refl.
      + cbn [mv_prefix] in H. pose proof (ds_meth1 (pdunder u) (VMv x) (RRec ks t) v' Hw Hd H) as St.
        cbn [is_rnum negb andb] in St.
        assert (Eu : is_un (pdunder u) = true) by (destruct u; [apply (lk_un _ "neg") | apply (lk_un _ "reverse")]; cbn; auto).
        rewrite Eu in St. destruct St as [S1 S2]. split; [exact S1|]. destruct (rec_meth1 opd tape_methods (pdunder u) (RRec ks t)); [exact S2 | discriminate].
  Qed.

  (* l o r with a recorder on the left: TapeRecorder.__o__(l, r) *)
  Lemma ds_infix_rec o v1 v2 ks1 t1 r2 v' sup : wfv v1 -> wfv v2 -> DS v1 (RRec ks1 t1) -> DS v2 r2 ->
    mv_infix O opd mv_methods o v1 v2 = Ok v' ->
    Step v' (rec_binary opd (opname o) ks1 t1 r2) false sup.
  Proof.
    intros Hw1 Hw2 Hd1 Hd2 H. destruct v1 as [a|x].
    - destruct v2 as [b|y].
      + (* coefficient o coefficient: Python arithmetic versus the scalar operator *)
        cbn [mv_infix] in H.
        destruct o; try discriminate; inversion H; subst v'; clear H; cbn [opname].
        * apply (ds_node2' "add" (VNum a) (VNum b) ks1 t1 r2 [(0, radd a b)] (VNum (radd a b))); try assumption;
            [apply (ok_s_add Hopd) | apply Permutation_refl].
        * apply (ds_node2' "sub" (VNum a) (VNum b) ks1 t1 r2 [(0, rsub a b)] (VNum (rsub a b))); try assumption;
            [apply (ok_s_sub Hopd) | apply Permutation_refl].
        * apply (ds_node2' "gp" (VNum a) (VNum b) ks1 t1 r2 [(0, rmul a b)] (VNum (rmul a b))); try assumption;
            [apply (ok_s_gp Hopd) | apply Permutation_refl].
      + (* coefficient o multivector: MultiVector's reflected member *)
        cbn [mv_infix mv_meth2] in H. rewrite lk_mv_rdunder in H. inv_bindn H as m Hm. inversion H; subst v'; clear H.
        destruct o; cbn [opname] in *;
          try (apply (ds_node2' _ (VNum a) (VMv y) ks1 t1 r2 m (VMv m)); try assumption;
               [apply Permutation_refl | (eapply call_wfv; [|exact Hm]; fa; assumption)]).
        (* + : MultiVector computes y + number *)
        destruct (ok_add_comm Hopd a y m Hw2 Hm) as [m' [Hm' Hp]].
        apply (ds_node2' "add" (VNum a) (VMv y) ks1 t1 r2 m' (VMv m)); try assumption.
        (eapply call_wfv; [|exact Hm]; fa; assumption).
    - cbn [mv_infix mv_meth2] in H. rewrite lk_mv_dunder in H. inv_bindn H as m Hm. inversion H; subst v'; clear H.
      apply (ds_node2' _ (VMv x) v2 ks1 t1 r2 m (VMv m)); try assumption;
        [apply Permutation_refl | (eapply call_wfv; [|exact Hm]; fa; assumption)].
  Qed.

  Lemma lk_tp_radd : mlookup "__radd__" tape_methods = Some ("add", false, 2%nat).
  Proof. exact (lk_tp_rdunder IAdd). Qed.
  Lemma as_mv_eq_perm (v0 : vl) m : as_mv v0 = m -> Permutation (as_mv v0) m.
  Proof. intros E. rewrite E. apply Permutation_refl. Qed.

  (* the reflected members of the recorder, evaluated on the tables *)
  Lemma rm2_radd ks t r2 : rec_meth2 opd tape_methods (rdunder IAdd) (RRec ks t) r2 = rec_binary opd "add" ks t r2.
  Proof. unfold rec_meth2, rec_meth2tab. rewrite (lk_tp_rdunder IAdd). reflexivity. Qed.
  Lemma rm2tab_radd ks t r2 : rec_meth2tab opd tape_methods "__radd__" (RRec ks t) r2 = rec_binary opd "add" ks t r2.
  Proof. unfold rec_meth2tab. rewrite lk_tp_radd. reflexivity. Qed.
  Lemma rm2_rsub ks t a : rec_meth2 opd tape_methods (rdunder ISub) (RRec ks t) (RNum a)
    = (n <- rec_meth1 opd tape_methods "__neg__" (RRec ks t) ;; rec_meth2tab opd tape_methods "__radd__" n (RNum a)).
  Proof. unfold rec_meth2. rewrite (lk_tp_rdunder ISub). reflexivity. Qed.
  Lemma rm2_rmul ks t a : rec_meth2 opd tape_methods (rdunder IMul) (RRec ks t) (RNum a) = rec_binary opd "gp" ks t (RNum a).
  Proof. unfold rec_meth2. rewrite (lk_tp_rdunder IMul). unfold rec_special, rec_meth2tab. cbn [String.eqb rdunder].
    change (String.eqb "__rmul__" "__rsub__") with false. change (String.eqb "__rmul__" "__rmul__") with true. cbn iota.
    rewrite (proj2 lk_gp). reflexivity. Qed.
  Lemma rm2_rxor ks t a : rec_meth2 opd tape_methods (rdunder IXor) (RRec ks t) (RNum a) = rec_binary opd "op" ks t (RNum a).
  Proof. unfold rec_meth2. rewrite (lk_tp_rdunder IXor). unfold rec_special, rec_meth2tab. cbn [rdunder].
    change (String.eqb "__rxor__" "__rsub__") with false. change (String.eqb "__rxor__" "__rmul__") with false.
    change (String.eqb "__rxor__" "__rxor__") with true. cbn iota.
    rewrite lk_op. reflexivity. Qed.
  Lemma rm2_none o ks t r2 : match o with IDiv | IOr | IAnd | IRshift | IMatmul => True | _ => False end ->
    rec_meth2 opd tape_methods (rdunder o) (RRec ks t) r2 = Err EAttr.
  Proof. intros H. unfold rec_meth2. rewrite lk_tp_rdunder. destruct o; try contradiction; reflexivity. Qed.

  (* number o r with a number LITERAL on the left and a recorder on the right: the reflected members of
     TapeRecorder: __radd__ (partialmethod: self + number), __rmul__, __rxor__ (self op number for a plain
     number), __rsub__ (other + (-self)) *)
  Lemma ds_infix_lit o a v2 ks2 t2 v' : wfv v2 -> DS v2 (RRec ks2 t2) ->
    mv_infix O opd mv_methods o (VNum a) v2 = Ok v' ->
    Step v' (rec_infix O opd tape_methods o (RNum a) (RRec ks2 t2)) false
         (match o with IAdd | ISub | IMul | IXor => true | _ => false end).
  Proof.
    intros Hw2 Hd2 H. cbn [rec_infix].
    assert (Hwa : wfv (VNum a)) by apply wfv_num.
    assert (Hda : DS (VNum a) (RNum a)) by reflexivity.
    destruct v2 as [b|y].
    - (* the right operand is a coefficient: Python arithmetic on the plain side *)
      cbn [mv_infix] in H.
      destruct o; try discriminate; inversion H; subst v'; clear H.
      + rewrite rm2_radd.
        apply (ds_node2' "add" (VNum b) (VNum a) ks2 t2 (RNum a) [(0, radd b a)] (VNum (radd a b))); try assumption.
        * apply (ok_s_add Hopd).
        * apply as_mv_eq_perm. cbn. f_equal. f_equal. ring.
      + destruct (ds_node1 "neg" (VNum b) ks2 t2 [(0, ropp b)] Hw2 Hd2 (ok_s_neg Hopd b)) as [Hwn [qn [En [Dn Sn]]]].
        rewrite rm2_rsub. cbn [rec_meth1]. rewrite (proj2 (lk_mv_un "__neg__" "neg" (or_introl eq_refl))). rewrite En. cbn [bind].
        destruct qn as [c|kn tn]; [discriminate|]. rewrite rm2tab_radd.
        apply (ds_node2' "add" (VMv [(0, ropp b)]) (VNum a) kn tn (RNum a) [(0, radd (ropp b) a)] (VNum (rsub a b))); try assumption.
        * apply (ok_s_add Hopd).
        * apply as_mv_eq_perm. cbn. f_equal. f_equal. ring.
      + rewrite rm2_rmul.
        apply (ds_node2' "gp" (VNum b) (VNum a) ks2 t2 (RNum a) [(0, rmul b a)] (VNum (rmul a b))); try assumption.
        * apply (ok_s_gp Hopd).
        * apply as_mv_eq_perm. cbn. f_equal. f_equal. ring.
    - (* the right operand is a multivector: MultiVector's reflected member on the plain side *)
      cbn [mv_infix mv_meth2] in H. rewrite lk_mv_rdunder in H. inv_bindn H as m Hm. inversion H; subst v'; clear H.
      assert (Hwm : wfv (VMv m)) by (destruct o; (eapply call_wfv; [|exact Hm]; fa; assumption)).
      destruct o; cbn [opname] in *; try (rewrite rm2_none by exact I; split; [exact Hwm | reflexivity]).
      + (* number + y  ->  y.__radd__(number): add(y, number) on both sides *)
        rewrite rm2_radd.
        apply (ds_node2' "add" (VMv y) (VNum a) ks2 t2 (RNum a) m (VMv m)); try assumption. apply Permutation_refl.
      + (* number - y  ->  number + (-y) *)
        destruct (ok_rsub Hopd a y m Hw2 Hm) as [n [m' [Hn [Hm' Hp]]]].
        destruct (ds_node1 "neg" (VMv y) ks2 t2 n Hw2 Hd2 Hn) as [Hwn [qn [En [Dn Sn]]]].
        rewrite rm2_rsub. cbn [rec_meth1]. rewrite (proj2 (lk_mv_un "__neg__" "neg" (or_introl eq_refl))). rewrite En. cbn [bind].
        destruct qn as [c|kn tn]; [discriminate|]. rewrite rm2tab_radd.
        apply (ds_node2' "add" (VMv n) (VNum a) kn tn (RNum a) m' (VMv m)); try assumption.
      + (* number * y  ->  y * number *)
        destruct (ok_gp_comm Hopd a y m Hw2 Hm) as [m' [Hm' Hp]].
        rewrite rm2_rmul.
        apply (ds_node2' "gp" (VMv y) (VNum a) ks2 t2 (RNum a) m' (VMv m)); try assumption.
      + (* number ^ y  ->  y ^ number *)
        destruct (ok_op_comm Hopd a y m Hw2 Hm) as [m' [Hm' Hp]].
        rewrite rm2_rxor.
        apply (ds_node2' "op" (VMv y) (VNum a) ks2 t2 (RNum a) m' (VMv m)); try assumption.
  Qed.

  Lemma ds_infix o v1 v2 r1 r2 v' : wfv v1 -> wfv v2 -> DS v1 r1 -> DS v2 r2 ->
    mv_infix O opd mv_methods o v1 v2 = Ok v' ->
    Step v' (rec_infix O opd tape_methods o r1 r2) (is_rnum r1 && is_rnum r2) (sup_infix o (is_rnum r1) (is_rnum r2)).
  Proof.
    intros Hw1 Hw2 Hd1 Hd2 H. destruct r1 as [a|ks1 t1].
    - cbn in Hd1. subst v1. destruct r2 as [b|ks2 t2].
      + cbn in Hd2. subst v2. cbn in H |- *.
        destruct o; try discriminate; inversion H; subst; (apply Step_ok; [apply wfv_num | reflexivity | reflexivity]).
      + cbn [is_rnum andb sup_infix]. apply (ds_infix_lit o a v2); assumption.
    - cbn [is_rnum andb sup_infix]. cbn [rec_infix]. unfold rec_meth2, rec_meth2tab. rewrite lk_tp_dunder.
      apply (ds_infix_rec o v1 v2); assumption.
  Qed.

  Lemma step_ok_inv v' rq nb : Step v' rq nb true -> wfv v' /\ exists q, rq = Ok q /\ DS v' q /\ is_rnum q = nb.
  Proof. intros [H1 H2]. split; [exact H1|]. destruct rq as [q|e]; [exists q; tauto | discriminate]. Qed.
  Lemma is_bin_gp : is_bin "gp" = true. Proof. unfold is_bin. rewrite (proj2 lk_gp). reflexivity. Qed.
  Lemma noswap_gp : noswap_m "gp" = true. Proof. unfold noswap_m. rewrite (proj1 lk_gp). reflexivity. Qed.

  Lemma ds_pow_loop n x0 ks0 t0 : wfv x0 -> DS x0 (RRec ks0 t0) ->
    forall acc racc v', wfv acc -> DS acc racc -> is_rnum racc = false ->
      pow_loop n (fun r => mv_meth2 opd mv_methods "gp" r x0) acc = Ok v' ->
      Step v' (pow_loop n (fun a => rec_meth2 opd tape_methods "gp" a (RRec ks0 t0)) racc) false true.
  Proof.
    intros Hw0 Hd0. induction n as [|n IH]; intros acc racc v' Hwa Hda Hs H; cbn [pow_loop] in H |- *.
    - inversion H; subst. apply Step_ok; assumption.
    - inv_bindn H as r1 Hr1.
      pose proof (ds_meth2 "gp" acc x0 racc (RRec ks0 t0) r1 Hwa Hw0 Hda Hd0 noswap_gp Hr1) as St.
      rewrite Hs, is_bin_gp in St. cbn [negb andb] in St.
      destruct (step_ok_inv _ _ _ St) as [Hw1 [q [Eq [Dq Sq]]]]. rewrite Eq. cbn [bind].
      exact (IH r1 q v' Hw1 Dq Sq H).
  Qed.

  Lemma ds_pow n v r v' : wfv v -> DS v r -> mv_pow O opd mv_methods v n = Ok v' ->
    Step v' (rec_pow opd tape_methods r n) false (negb (is_rnum r)).
  Proof.
    intros Hw Hd H. destruct v as [a|x]; [discriminate|]. destruct r as [c|ks t]; [cbn in Hd; discriminate|].
    cbn [mv_pow] in H. cbn [rec_pow is_rnum negb]. destruct (n =? 0).
    - inversion H; subst. apply Step_ok; [apply wfm_scalar | | reflexivity].
      split; [exact wfk_0|]. exists [rI]. cbn. repeat split; auto.
    - inv_bindn H as x0 Hx0. destruct (n <? 0).
      + pose proof (ds_meth1 "inv" (VMv x) (RRec ks t) x0 Hw Hd Hx0) as St.
        rewrite (lk_un "inv" "inv") in St by (cbn; auto 10). cbn [is_rnum negb andb] in St.
        destruct (step_ok_inv _ _ _ St) as [Hw1 [q [Eq [Dq Sq]]]]. rewrite Eq. cbn [bind].
        destruct q as [c|k0 t0]; [discriminate|].
        exact (ds_pow_loop _ x0 k0 t0 Hw1 Dq x0 (RRec k0 t0) v' Hw1 Dq eq_refl H).
      + inversion Hx0; subst x0. cbn [bind].
        exact (ds_pow_loop _ (VMv x) ks t Hw Hd (VMv x) (RRec ks t) v' Hw Hd eq_refl H).
  Qed.

  (* grade selection *)
  Lemma in_keys_ex {V} (x : mv V) k : In k (keys x) -> exists v, In (k, v) x.
  Proof. intros H. apply in_map_iff in H. destruct H as [[k0 v] [E Hin]]. cbn in E. subst. eauto. Qed.
  Lemma in_keys_of {V} (x : mv V) k v : In (k, v) x -> In k (keys x).
  Proof. intros H. apply in_map_iff. exists (k, v). auto. Qed.

  Lemma ds_grade gs v r v' : wfv v -> DS v r -> mv_grade O A v gs = Ok v' ->
    Step v' (rec_grade A r gs) false (negb (is_rnum r)).
  Proof.
    intros Hw Hd H. destruct v as [a|x]; [discriminate|]. destruct r as [c|ks t]; [cbn in Hd; discriminate|].
    cbn [mv_grade] in H. inv_bindn H as r0 Hr0. inversion H; subst v'. clear H.
    unfold grade_sel in Hr0. inv_bindn Hr0 as bb Hbb. inversion Hr0; subst r0. clear Hr0.
    cbn [rec_grade is_rnum negb]. rewrite Hbb. cbn [bind].
    destruct Hd as [Hk [a [Hr [Hl Hp]]]]. cbn [as_mv] in Hp, Hw.
    pose proof (Hgr gs bb Hbb) as Hnb.
    set (P := fun k => zin k bb).
    set (r0 := flat_map (fun k => if zin k (keys x) then [(k, coeff O k x)] else []) bb).
    assert (Hin0 : forall k v, In (k, v) r0 <-> In k bb /\ In (k, v) x).
    { intros k v. unfold r0. rewrite in_flat_map. split.
      - intros [k0 [Hk0 Hi]]. destruct (zin k0 (keys x)) eqn:Ez; [|contradiction].
        destruct Hi as [E|[]]. inversion E; subst k0 v. split; [exact Hk0|].
        apply zin_true_iff in Ez. destruct (in_keys_ex x k Ez) as [v0 Hv0].
        rewrite (coeff_in R rO rI radd rmul rsub ropp k v0 x (proj1 Hw) Hv0). exact Hv0.
      - intros [Hb Hx]. exists k. split; [exact Hb|].
        assert (Ez : zin k (keys x) = true) by (apply zin_true_iff; eapply in_keys_of; exact Hx).
        rewrite Ez. left. rewrite (coeff_in R rO rI radd rmul rsub ropp k v x (proj1 Hw) Hx). reflexivity. }
    assert (Hk0 : keys r0 = filter (fun k => zin k (keys x)) bb).
    { unfold r0. clear. induction bb as [|k bb IH]; cbn; [reflexivity|].
      unfold keys in *. rewrite map_app, IH. destruct (zin k (map fst x)); reflexivity. }
    assert (Hw0 : wfm r0).
    { unfold wfm. rewrite Hk0. split; [apply NoDup_filter; exact Hnb|].
      intros k Hk1. apply filter_In in Hk1. destruct Hk1 as [_ Hz]. apply zin_true_iff in Hz. apply (proj2 Hw). exact Hz. }
    apply Step_ok; [exact Hw0 | | reflexivity].
    rewrite (enum_filter_keys P). split; [apply wfk_filter; exact Hk|].
    exists (selv P ks a). rewrite run_TSel, Hr. cbn [bind].
    split; [exact (enum_filter_vals0 P ks a Hl)|].
    destruct (selv_combine P ks a Hl) as [E1 E2]. split; [exact E2|]. rewrite E1. cbn [as_mv].
    apply NoDup_Permutation.
    - apply NoDup_keys_NoDup. apply Hw0.
    - apply NoDup_filter. apply NoDup_keys_NoDup. rewrite keys_combine by exact Hl. apply Hk.
    - intros [k v]. rewrite Hin0, filter_In. cbn [fst]. unfold P. rewrite zin_true_iff. split.
      + intros [Hb Hx]. split; [eapply Permutation_in; [exact Hp | exact Hx] | exact Hb].
      + intros [Hc Hb]. split; [exact Hb | eapply Permutation_in; [apply Permutation_sym; exact Hp | exact Hc]].
  Qed.

  (* coefficient access *)
  Lemma ds_getattr nm v r v' : wfv v -> DS v r -> mv_getattr O A v nm = Ok v' ->
    Step v' (rec_getattr A r nm) false (negb (is_rnum r)).
  Proof.
    intros Hw Hd H. destruct v as [a0|x]; [discriminate|]. destruct r as [c|ks t]; [cbn in Hd; discriminate|].
    cbn [mv_getattr] in H. cbn [rec_getattr is_rnum negb].
    assert (Hzero : Step (VNum rO) (Ok (RRec [0] (@TZero R))) false true).
    { apply Step_ok; [apply wfv_num | | reflexivity]. split; [exact wfk_0|]. exists [rO]. cbn. repeat split; auto. }
    destruct (blade2canon A nm) as [[cn|] swaps]; [|inversion H; subst; exact Hzero].
    destruct (canon2bin A cn) as [b|]; [|inversion H; subst; exact Hzero].
    destruct Hd as [Hk [a [Hr [Hl Hp]]]]. cbn [as_mv] in Hp, Hw.
    assert (Hpk : Permutation (keys x) ks).
    { rewrite <- (keys_combine ks a Hl). apply perm_keys. exact Hp. }
    destruct (zindex b (keys x)) as [idx|] eqn:Hz.
    - destruct (zindex b ks) as [idx'|] eqn:Hz'; [|apply (zindex_perm b (keys x) ks Hpk) in Hz'; congruence].
      destruct (nth_error (vals x) idx) as [c0|] eqn:Hc0; [|discriminate]. inversion H; subst v'. clear H.
      destruct (idx_value b (keys x) idx (vals x) Hz) as [v0 [Hv0 Hin0]]; [rewrite length_vals, length_keys; reflexivity|].
      rewrite combine_keys_vals in Hin0. rewrite Hc0 in Hv0. inversion Hv0; subst v0.
      destruct (idx_value b ks idx' a Hz' Hl) as [v1 [Hv1 Hin1]].
      assert (c0 = v1).
      { eapply (in_keys_unique (combine ks a) b); [rewrite keys_combine by exact Hl; apply Hk | | exact Hin1].
        eapply Permutation_in; [exact Hp | exact Hin0]. }
      subst v1. apply Step_ok; [apply wfv_num | | reflexivity]. split; [exact wfk_0|].
      eexists. rewrite run_TIdx, Hr. cbn [bind]. rewrite Hv1. cbn [of_opt bind]. split; [reflexivity|]. split; [reflexivity|].
      cbn. rewrite <- Z.negb_odd. destruct (Z.odd swaps); apply Permutation_refl.
    - assert (Hz' : zindex b ks = None) by (apply (zindex_perm b (keys x) ks Hpk); exact Hz). rewrite Hz'.
      inversion H; subst; exact Hzero.
  Qed.

  Lemma ds_dual un k v r v' : wfv v -> DS v r -> mv_dual A opd mv_methods un v k = Ok v' ->
    Step v' (rec_dual A opd tape_methods un r k) false (negb (is_rnum r)).
  Proof.
    intros Hw Hd H. destruct v as [a0|x]; [discriminate|]. destruct r as [c|ks t]; [cbn in Hd; discriminate|].
    cbn [mv_dual] in H. cbn [rec_dual is_rnum negb]. inv_bindn H as m Hm. rewrite Hm. cbn [bind].
    pose proof (ds_meth1 m (VMv x) (RRec ks t) v' Hw Hd H) as St. cbn [is_rnum negb andb] in St.
    assert (Em : is_un m = true).
    { unfold dual_member in Hm.
      destruct un, k; cbn in Hm;
        repeat match type of Hm with context [if ?c then _ else _] => destruct c end;
        try discriminate; inversion Hm; subst m;
        match goal with |- is_un ?nm = true => apply (lk_un nm nm) end; cbn; auto 10. }
    rewrite Em in St. exact St.
  Qed.

  Lemma ds_norm v r v' : wfv v -> DS v r -> mv_norm opd mv_methods v = Ok v' ->
    Step v' (rec_norm opd tape_methods r) false (negb (is_rnum r)).
  Proof.
    intros Hw Hd H. unfold mv_norm in H. inv_bindn H as n Hn. unfold rec_norm.
    destruct v as [a0|x]; [discriminate|]. destruct r as [c|ks t]; [cbn in Hd; discriminate|].
    pose proof (ds_meth1 "normsq" (VMv x) (RRec ks t) n Hw Hd Hn) as St.
    rewrite (lk_un "normsq" "normsq") in St by (cbn; auto 10). cbn [is_rnum negb andb] in St.
    destruct (step_ok_inv _ _ _ St) as [Hw1 [q [Eq [Dq Sq]]]]. rewrite Eq. cbn [bind is_rnum negb].
    pose proof (ds_meth1 "sqrt" n q v' Hw1 Dq H) as St2.
    rewrite (lk_un "sqrt" "sqrt"), Sq in St2 by (cbn; auto 10). exact St2.
  Qed.

  Lemma ds_normalized v r v' : wfv v -> DS v r -> mv_normalized O opd mv_methods v = Ok v' ->
    Step v' (rec_normalized O opd tape_methods r) false (negb (is_rnum r)).
  Proof.
    intros Hw Hd H. destruct v as [a0|x]; [discriminate|]. destruct r as [c|ks t]; [cbn in Hd; discriminate|].
    cbn [mv_normalized] in H. cbn [rec_normalized is_rnum negb]. inv_bindn H as n Hn.
    pose proof (ds_norm (VMv x) (RRec ks t) n Hw Hd Hn) as St. cbn [is_rnum negb] in St.
    destruct (step_ok_inv _ _ _ St) as [Hw1 [q [Eq [Dq Sq]]]]. rewrite Eq. cbn [bind].
    pose proof (ds_infix IDiv (VMv x) n (RRec ks t) q v' Hw Hw1 Hd Dq H) as St2.
    cbn [is_rnum andb sup_infix] in St2. exact St2.
  Qed.
  End G1.

  (* a plain value is trivially simulated by a recorder that reads it from its own environment: used to
     obtain well-formedness of the plain result when the real recorder has already raised *)
  Lemma DS_self (x : vl) i pre : wfv x -> length pre = i ->
    DS (pre ++ [vals (as_mv x)])%list x (RRec (keys (as_mv x)) (TArg i)).
  Proof.
    intros Hw Hi. split; [exact Hw|]. exists (vals (as_mv x)). cbn.
    rewrite nth_error_app2 by lia. subst i. rewrite Nat.sub_diag. cbn.
    split; [reflexivity|]. split; [rewrite length_vals, length_keys; reflexivity|].
    rewrite combine_keys_vals. apply Permutation_refl.
  Qed.
  Lemma DS_ext venv1 venv2 (v : vl) ks i : nth_error venv1 i = nth_error venv2 i ->
    DS venv1 v (RRec ks (TArg i)) -> DS venv2 v (RRec ks (TArg i)).
  Proof. intros E [Hk [vs [Hr H]]]. split; [exact Hk|]. exists vs. cbn in *. rewrite <- E. auto. Qed.

  Lemma DS_asrec venv' (v : vl) (r : rv) : DS venv' v r -> DS venv' v (mk (as_rec r)).
  Proof.
    destruct r as [c|ks t]; cbn [as_rec mk fst snd]; [|intros H; exact H].
    intros E. cbn in E. subst v. split; [exact wfk_0|]. exists [c]. cbn. repeat split; auto.
  Qed.
  Lemma is_rec_rnum (r : rv) : is_rec r = negb (is_rnum r).
  Proof. destruct r; reflexivity. Qed.
  Lemma call_args_values venv' vs kts : Forall2 (DS venv') vs (map mk kts) ->
    exists xs', Forall2 (fun v x' => Permutation (as_mv v) x') vs xs' /\ map keys xs' = map fst kts /\
                mapM (run venv') (map snd kts) = Ok (map vals xs').
  Proof.
    revert vs. induction kts as [|[ks t] kts IH]; intros vs H; inversion H as [|v ? vs0 ? Hd Hr]; subst.
    - exists []. repeat split; constructor.
    - destruct (IH vs0 Hr) as [xs' [F [Ek Em]]]. unfold mk in Hd. cbn [fst snd] in Hd. destruct Hd as [Hk [a [Ha [Hl Hp]]]].
      exists (combine ks a :: xs'). split; [constructor; assumption|]. cbn [map fst snd mapM].
      rewrite keys_combine, vals_combine by exact Hl. rewrite Ek, Ha. cbn [bind]. rewrite Em. cbn [bind]. auto.
  Qed.

  (* G1 *)
  Theorem agree_gen : forall fuel e env env' v,
    Forall wfm env -> Forall2 (@Permutation (Z * R)) env env' -> noswap e = true ->
    dir fuel env e = Ok v ->
    Step (map vals env') v (rec_ fuel (map keys env') e) (isnum e) (supported e).
  Proof.
    induction fuel as [|fu IH]; intros e env env' v Hw Hp Hns H; [discriminate|].
    set (venv' := map vals env'). set (kenv' := map keys env').
    assert (U1 : forall (F : vl -> res vl) (G : rv -> res rv) e1 (nbf supf : bool -> bool),
              (forall ve v0 r v1, wfv v0 -> DS ve v0 r -> F v0 = Ok v1 -> Step ve v1 (G r) (nbf (is_rnum r)) (supf (is_rnum r))) ->
              noswap e1 = true -> (x <- dir fu env e1 ;; F x) = Ok v ->
              Step venv' v (x <- rec_ fu kenv' e1 ;; G x) (nbf (isnum e1)) (supported e1 && supf (isnum e1))).
    { intros F G e1 nbf supf HF Hn1 H1. inv_bindn H1 as x Hx.
      destruct (IH e1 env env' x Hw Hp Hn1 Hx) as [Hwx M]. fold venv' kenv' in M.
      destruct (rec_ fu kenv' e1) as [r1|er]; cbn [bind].
      - destruct M as [Dx Sx]. rewrite <- Sx. apply Step_weaken. exact (HF venv' x r1 v Hwx Dx H1).
      - split; [|rewrite M; reflexivity].
        exact (proj1 (HF _ x _ v Hwx (DS_self x 0%nat [] Hwx eq_refl) H1)). }
    assert (U2 : forall (F : vl -> vl -> res vl) (G : rv -> rv -> res rv) e1 e2 (nbf supf : bool -> bool -> bool),
              (forall ve v1 v2 r1 r2 v0, wfv v1 -> wfv v2 -> DS ve v1 r1 -> DS ve v2 r2 -> F v1 v2 = Ok v0 ->
                 Step ve v0 (G r1 r2) (nbf (is_rnum r1) (is_rnum r2)) (supf (is_rnum r1) (is_rnum r2))) ->
              noswap e1 = true -> noswap e2 = true ->
              (x <- dir fu env e1 ;; y <- dir fu env e2 ;; F x y) = Ok v ->
              Step venv' v (x <- rec_ fu kenv' e1 ;; y <- rec_ fu kenv' e2 ;; G x y) (nbf (isnum e1) (isnum e2))
                   (supported e1 && (supported e2 && supf (isnum e1) (isnum e2)))).
    { intros F G e1 e2 nbf supf HF Hn1 Hn2 H1. inv_bindn H1 as x Hx. inv_bindn H1 as y Hy.
      destruct (IH e1 env env' x Hw Hp Hn1 Hx) as [Hwx M1]. destruct (IH e2 env env' y Hw Hp Hn2 Hy) as [Hwy M2].
      fold venv' kenv' in M1, M2.
      assert (Hwv : wfv v).
      { refine (proj1 (HF [vals (as_mv x); vals (as_mv y)] x y (RRec (keys (as_mv x)) (TArg 0)) (RRec (keys (as_mv y)) (TArg 1))
                             v Hwx Hwy _ _ H1)).
        - apply (DS_ext ([] ++ [vals (as_mv x)])%list _ x (keys (as_mv x)) 0%nat); [reflexivity|]. exact (DS_self x 0%nat [] Hwx eq_refl).
        - apply (DS_ext ([vals (as_mv x)] ++ [vals (as_mv y)])%list _ y (keys (as_mv y)) 1%nat); [reflexivity|].
          exact (DS_self y 1%nat [vals (as_mv x)] Hwy eq_refl). }
      destruct (rec_ fu kenv' e1) as [r1|er]; cbn [bind].
      - destruct M1 as [Dx Sx]. destruct (rec_ fu kenv' e2) as [r2|er]; cbn [bind].
        + destruct M2 as [Dy Sy]. rewrite <- Sx, <- Sy. apply Step_weaken, Step_weaken.
          exact (HF venv' x y r1 r2 v Hwx Hwy Dx Dy H1).
        + split; [exact Hwv|]. rewrite M2. cbn. apply andb_false_r.
      - split; [exact Hwv|]. rewrite M1. reflexivity. }
    destruct e; cbn [direct] in H; cbn [record isnum supported]; cbn [noswap] in Hns.
    - (* EArg *)
      inv_bindn H as x Hx. inversion H; subst v. clear H.
      destruct (nth_error env i) as [x0|] eqn:En; cbn in Hx; [|discriminate]. inversion Hx; subst x0.
      destruct (Forall2_nth _ _ _ i x Hp En) as [x' [En' Hpx]].
      unfold kenv'. rewrite (map_nth_error keys i env' En'). cbn [of_opt bind].
      assert (Hwx : wfm x) by exact (Forall_nth _ _ _ _ Hw En).
      apply Step_ok; [exact Hwx | | reflexivity].
      split; [exact (wfm_perm x x' Hwx Hpx)|]. exists (vals x'). cbn. unfold venv'. rewrite (map_nth_error vals i env' En'). cbn.
      split; [reflexivity|]. split; [rewrite length_vals, length_keys; reflexivity|]. rewrite combine_keys_vals. exact Hpx.
    - (* ENum *) inversion H; subst. apply Step_ok; [apply wfv_num | reflexivity | reflexivity].
    - (* EMeth1 *)
      exact (U1 _ _ e (fun _ => false) (fun nb => negb nb && is_un m) (fun ve v0 r v1 => ds_meth1 ve m v0 r v1) Hns H).
    - (* EMeth2 *)
      apply andb_true_iff in Hns. destruct Hns as [Hns Hn2]. apply andb_true_iff in Hns. destruct Hns as [Hnm Hn1].
      exact (U2 _ _ e1 e2 (fun _ _ => false) (fun nb _ => negb nb && is_bin m)
                (fun ve v1 v2 r1 r2 v0 a b c d => ds_meth2 ve m v1 v2 r1 r2 v0 a b c d Hnm) Hn1 Hn2 H).
    - (* EPrefix *)
      exact (U1 _ _ e (fun nb => nb && is_neg u) (fun nb => if nb then is_neg u else true)
                (fun ve v0 r v1 => ds_prefix ve u v0 r v1) Hns H).
    - (* EInfix *)
      apply andb_true_iff in Hns. destruct Hns as [Hn1 Hn2].
      exact (U2 _ _ e1 e2 andb (sup_infix o) (fun ve v1 v2 r1 r2 v0 => ds_infix ve o v1 v2 r1 r2 v0) Hn1 Hn2 H).
    - exact (U1 _ _ e (fun _ => false) negb (fun ve v0 r v1 => ds_pow ve n v0 r v1) Hns H).
    - exact (U1 _ _ e (fun _ => false) negb (fun ve v0 r v1 => ds_grade ve gs v0 r v1) Hns H).
    - exact (U1 _ _ e (fun _ => false) negb (fun ve v0 r v1 => ds_getattr ve nm v0 r v1) Hns H).
    - exact (U1 _ _ e (fun _ => false) negb (fun ve v0 r v1 => ds_dual ve false k v0 r v1) Hns H).
    - exact (U1 _ _ e (fun _ => false) negb (fun ve v0 r v1 => ds_dual ve true k v0 r v1) Hns H).
    - exact (U1 _ _ e (fun _ => false) negb (fun ve v0 r v1 => ds_norm ve v0 r v1) Hns H).
    - exact (U1 _ _ e (fun _ => false) negb (fun ve v0 r v1 => ds_normalized ve v0 r v1) Hns H).
    - (* ECall *)
      inv_bindn H as vs Hvs. inv_bindn H as m Hm. inversion H; subst v. clear H.
      assert (HA : forall args0 vs0, forallb noswap args0 = true -> mapM (dir fu env) args0 = Ok vs0 ->
                 Forall wfv vs0 /\
                 match mapM (rec_ fu kenv') args0 with
                 | Err _ => forallb supported args0 = false
                 | Ok rs => Forall2 (DS venv') vs0 rs /\ existsb is_rec rs = existsb (fun a => negb (isnum a)) args0
                 end).
      { intros args0. induction args0 as [|a0 args0 IHa]; intros vs0 Hn0 Hm0; cbn [mapM forallb existsb] in *.
        - inversion Hm0; subst. split; [constructor|]. split; [constructor | reflexivity].
        - apply andb_true_iff in Hn0. destruct Hn0 as [Hna Hn0].
          inv_bindn Hm0 as y0 Hy0. inv_bindn Hm0 as ys Hys. inversion Hm0; subst vs0. clear Hm0.
          destruct (IH a0 env env' y0 Hw Hp Hna Hy0) as [Hwy M]. fold venv' kenv' in M.
          destruct (IHa ys Hn0 Hys) as [Hwys Mys].
          split; [constructor; assumption|].
          destruct (rec_ fu kenv' a0) as [r0|er]; cbn [bind].
          + destruct M as [D0 S0]. destruct (mapM (rec_ fu kenv') args0) as [rs|er]; cbn [bind].
            * destruct Mys as [Ds Es]. split; [constructor; assumption|]. cbn [existsb].
              rewrite Es, is_rec_rnum, S0. reflexivity.
            * rewrite Mys. apply andb_false_r.
          + rewrite M. reflexivity. }
      destruct (HA args vs Hns Hvs) as [Hwvs MA].
      assert (Hwxs : Forall wfm (map as_mv vs)).
      { clear -Hwvs. induction Hwvs; cbn; constructor; assumption. }
      assert (Hrefl : Forall2 (@Permutation (Z * R)) (map as_mv vs) (map as_mv vs)).
      { clear. induction (map as_mv vs); constructor; [apply Permutation_refl | assumption]. }
      assert (Hwm : wfm m) by exact (proj1 (registered_perm fu k _ _ m Hwxs Hrefl Hm)).
      destruct (mapM (rec_ fu kenv') args) as [rs|er]; cbn [bind]; [|split; [exact Hwm | rewrite MA; reflexivity]].
      destruct MA as [Ds Es]. rewrite Es.
      destruct (existsb (fun a => negb (isnum a)) args); cbn [negb]; [|split; [exact Hwm | apply andb_false_r]].
      assert (Ds2 : Forall2 (DS venv') vs (map mk (map as_rec rs))).
      { clear -Ds H0. induction Ds; cbn; [constructor | constructor; [apply DS_asrec; assumption | assumption]]. }
      destruct (call_args_values venv' vs (map as_rec rs) Ds2) as [xs' [Fp [Ek Em]]].
      assert (Hpx : Forall2 (@Permutation (Z * R)) (map as_mv vs) xs').
      { clear -Fp. induction Fp; cbn; constructor; assumption. }
      destruct (registered_perm fu k _ xs' m Hwxs Hpx Hm) as [_ [body [ko' [tb' [vs' [Eb [Er [Erun [Hl [Hk Hpm]]]]]]]]]].
      rewrite Eb. cbn [of_opt bind]. rewrite <- Ek, Er. cbn [bind].
      apply Step_ok; [exact Hwm | | reflexivity].
      split; [exact Hk|]. exists vs'. rewrite run_TCall, Em. cbn [bind]. repeat split; assumption.
  Qed.

  (* ---------------- the two clauses of C11 for the registered function g_k ---------------- *)
  Theorem registered_agrees fuel k body xs v :
    Forall wfm xs -> nth_error bodies k = Some body -> noswap body = true ->
    dir fuel xs body = Ok v ->
    (forall m, reg fuel k xs = Ok m -> Permutation m (as_mv v)) /\
    (supported body = true -> isnum body = false -> exists m, reg fuel k xs = Ok m /\ Permutation m (as_mv v)).
  Proof.
    intros Hw Hb Hns Hd.
    assert (Hrefl : Forall2 (@Permutation (Z * R)) xs xs).
    { clear. induction xs; constructor; [apply Permutation_refl | assumption]. }
    destruct (agree_gen fuel body xs xs v Hw Hrefl Hns Hd) as [Hwv M].
    unfold registered, compile. rewrite Hb. cbn [of_opt bind].
    destruct (rec_ fuel (map keys xs) body) as [[c|ks t]|er]; cbn [bind].
    - split; [intros m Hm; discriminate|]. destruct M as [_ S]. cbn in S. intros _ Hn. congruence.
    - destruct M as [[Hk [vs [Hr [Hl Hp]]]] _]. rewrite Hr. cbn [bind].
      split; [intros m Hm; inversion Hm; subst; apply Permutation_sym; exact Hp|].
      intros _ _. eexists. split; [reflexivity | apply Permutation_sym; exact Hp].
    - split; [intros m Hm; discriminate|]. intros Hs. congruence.
  Qed.
End Abstract.

(* ================= 2. the table of generated functions of Model/Tape.v ================= *)

Lemma Uth : ring_theory tt tt (fun _ _ : unit => tt) (fun _ _ => tt) (fun _ _ => tt) (fun _ => tt) (@eq unit).
Proof. constructor; intros; repeat match goal with x : unit |- _ => destruct x end; reflexivity. Qed.

Lemma unit_mv_eq (x y : mv unit) : keys x = keys y -> x = y.
Proof.
  revert y. induction x as [|[k []] x IH]; intros [|[k' []] y] H; cbn in H; try discriminate; [reflexivity|].
  inversion H; subst. f_equal. apply IH. assumption.
Qed.
Lemma keys_ksym ks : keys (ksym ks) = ks.
Proof. unfold keys, ksym. rewrite map_map. cbn. apply map_id. Qed.
Lemma ksym_perm ks ks' : Permutation ks ks' -> Permutation (ksym ks) (ksym ks').
Proof. apply Permutation_map. Qed.
Lemma zin_ext k l l' : (In k l <-> In k l') -> zin k l = zin k l'.
Proof.
  intros H. destruct (zin k l) eqn:E1, (zin k l') eqn:E2; try reflexivity.
  - apply zin_true_iff in E1. apply H in E1. apply zin_true_iff in E1. congruence.
  - apply zin_true_iff in E2. apply H in E2. apply zin_true_iff in E2. congruence.
Qed.
(* two re-sorted dictionaries with the same stored key set have the same key tuple *)
Lemma keys_canon_sort_ext {T} A (d d' : mv T) : (forall k, In k (canon_keys A) -> (In k (keys d) <-> In k (keys d'))) ->
  keys (canon_sort A d) = keys (canon_sort A d').
Proof.
  intros H. rewrite !keys_canon_sort. apply filter_ext_in. intros k Hk. apply zin_ext. apply H. exact Hk.
Qed.

Section Concrete.
  Variable R : Type.
  Variables (rO rI : R) (radd rmul rsub : R -> R -> R) (ropp : R -> R).
  Hypothesis Rth : ring_theory rO rI radd rmul rsub ropp (@eq R).
  Add Ring ConcreteRing : Rth.
  Local Notation O := (mkOps R radd rsub rmul ropp rO rI).
  Local Notation "x == y" := (Sparse.equiv rO rI radd rmul rsub ropp x y) (at level 70, no associativity).
  Variable A : alg.
  Hypothesis Hwf : wf_alg A = true.
  Let SH : sign_hyps A := wf_sign_hyps A Hwf.
  Let Hnd : NoDup (canon_keys A) := sh_nodup A SH.

  Lemma unit_hom : ops_hom O Uops (fun _ : R => tt).
  Proof. constructor; reflexivity. Qed.
  Lemma map_tt (x : mv R) : map_mv (fun _ : R => tt) x = ksym (keys x).
  Proof. unfold map_mv, ksym, keys. rewrite map_map. reflexivity. Qed.

  (* equal key tuples + equal coefficients = equal multivectors *)
  Lemma eq_of_equiv (m m' : mv R) : keys m = keys m' -> NoDup (keys m) -> m == m' -> m = m'.
  Proof.
    revert m'. induction m as [|[k v] m IH]; intros [|[k' v'] m'] Hk Hn He; cbn in Hk; try discriminate; [reflexivity|].
    injection Hk as Ek Ekeys. subst k'. inversion Hn as [|? ? Hni Hnd']; subst.
    assert (v = v').
    { specialize (He k). cbn in He. rewrite Z.eqb_refl in He. exact He. }
    subst v'. f_equal. apply IH; [assumption | assumption |].
    intros K. specialize (He K). cbn in He. destruct (Z.eqb_spec k K) as [E|E]; [|exact He].
    subst K. rewrite !(coeff_notin R rO rI radd rmul rsub ropp); [reflexivity | | exact Hni].
    unfold keys. rewrite <- Ekeys. exact Hni.
  Qed.

  (* --- what is needed of a polynomial operator --- *)
  Record good2 (f : op2) : Prop := mkGood2 {
    g2_nat : natural2 f;
    g2_congr : forall x x' y y', NoDup (keys x) -> NoDup (keys x') -> NoDup (keys y) -> NoDup (keys y') ->
                 x == x' -> y == y' -> f R O A x y == f R O A x' y';
    g2_wf : forall T (OT : ops T) x y, NoDup (keys (f T OT A x y)) /\ incl (keys (f T OT A x y)) (canon_keys A);
    g2_perm : forall X X' Y Y' : mv unit, NoDup (keys X) -> NoDup (keys Y) -> Permutation X X' -> Permutation Y Y' ->
                 f unit Uops A X Y = f unit Uops A X' Y';
  }.
  Record good1 (f : op1) : Prop := mkGood1 {
    g1_nat : natural1 f;
    g1_congr : forall x x', NoDup (keys x) -> NoDup (keys x') -> x == x' -> f R O A x == f R O A x';
    g1_wf : forall T (OT : ops T) x, NoDup (keys (f T OT A x)) /\ incl (keys (f T OT A x)) (canon_keys A);
    g1_perm : forall X X' : mv unit, NoDup (keys X) -> Permutation X X' -> f unit Uops A X = f unit Uops A X';
  }.

  Lemma sorted_wf {T} (d : mv T) : NoDup (keys (canon_sort A d)) /\ incl (keys (canon_sort A d)) (canon_keys A).
  Proof. split; [apply NoDup_keys_canon_sort; exact Hnd | apply keys_canon_sort_incl]. Qed.

  (* the product family *)
  Lemma good_product (sf : alg -> Z -> Z -> Z) (fl : alg -> option (Z -> Z -> Z -> bool)) (ko : alg -> Z -> Z -> Z) :
    good2 (fun T OT A0 x y => canon_sort A0 (codegen_product OT (sf A0) (fl A0) (ko A0) x y)).
  Proof.
    constructor.
    - intros T1 T2 O1 O2 g Hg A0 x y. rewrite nat_canon_sort. f_equal.
      exact (natural_codegen_product (sf A0) (fl A0) (ko A0) T1 T2 O1 O2 g Hg A0 x y).
    - intros. apply (sorted_product_congr R rO rI radd rmul rsub ropp Rth); assumption.
    - intros. apply sorted_wf.
    - intros X X' Y Y' _ _ HX HY. apply unit_mv_eq. apply keys_canon_sort_ext. intros k _.
      rewrite !(product_keys unit tt tt (fun _ _ => tt) (fun _ _ => tt) (fun _ _ => tt) (fun _ => tt)).
      split; intros [kx [vx [ky [vy [H1 [H2 H3]]]]]]; exists kx, vx, ky, vy; (split; [|split; [|exact H3]]).
      + eapply Permutation_in; [exact HX | exact H1].
      + eapply Permutation_in; [exact HY | exact H2].
      + eapply Permutation_in; [apply Permutation_sym; exact HX | exact H1].
      + eapply Permutation_in; [apply Permutation_sym; exact HY | exact H2].
  Qed.

  Lemma in_union k l1 l2 : In k (l1 ++ filter (fun k0 => negb (zin k0 l1)) l2) <-> In k l1 \/ In k l2.
  Proof.
    rewrite in_app_iff, filter_In, negb_true_iff, zin_false_iff. split; [tauto|].
    intros [H|H]; [tauto|]. destruct (in_dec Z.eq_dec k l1); tauto.
  Qed.
  Lemma perm_in_iff {X} (l l' : list X) a : Permutation l l' -> (In a l <-> In a l').
  Proof. intros H. split; apply Permutation_in; [exact H | apply Permutation_sym; exact H]. Qed.
  Lemma NoDup_keys_perm {T} (X X' : mv T) : NoDup (keys X) -> Permutation X X' -> NoDup (keys X').
  Proof. intros H Hp. eapply Permutation_NoDup; [apply perm_keys; exact Hp | exact H]. Qed.

  Lemma good_add : good2 (@add).
  Proof.
    constructor.
    - exact natural_add.
    - intros. apply (add_congr R rO rI radd rmul rsub ropp Rth); assumption.
    - intros. apply sorted_wf.
    - intros X X' Y Y' HnX HnY HX HY. apply unit_mv_eq. apply keys_canon_sort_ext. intros k _.
      pose proof (NoDup_keys_perm X X' HnX HX) as HnX'. pose proof (NoDup_keys_perm Y Y' HnY HY) as HnY'.
      rewrite !(keys_raw_add unit tt tt (fun _ _ => tt) (fun _ _ => tt) (fun _ _ => tt) (fun _ => tt));
        try assumption.
      rewrite !in_union. rewrite (perm_in_iff _ _ k (perm_keys _ _ HX)), (perm_in_iff _ _ k (perm_keys _ _ HY)). reflexivity.
  Qed.
  Lemma good_sub : good2 (@sub).
  Proof.
    constructor.
    - exact natural_sub.
    - intros. apply (sub_congr R rO rI radd rmul rsub ropp Rth); assumption.
    - intros. apply sorted_wf.
    - intros X X' Y Y' HnX HnY HX HY. apply unit_mv_eq. apply keys_canon_sort_ext. intros k _.
      pose proof (NoDup_keys_perm X X' HnX HX) as HnX'. pose proof (NoDup_keys_perm Y Y' HnY HY) as HnY'.
      rewrite !(keys_raw_sub unit tt tt (fun _ _ => tt) (fun _ _ => tt) (fun _ _ => tt) (fun _ => tt));
        try assumption.
      rewrite !in_union. rewrite (perm_in_iff _ _ k (perm_keys _ _ HX)), (perm_in_iff _ _ k (perm_keys _ _ HY)). reflexivity.
  Qed.
  Lemma good_neg : good1 (@neg).
  Proof.
    constructor.
    - exact natural_neg.
    - intros. apply (neg_congr R rO rI radd rmul rsub ropp Rth); assumption.
    - intros. apply sorted_wf.
    - intros X X' HnX HX. apply unit_mv_eq. apply keys_canon_sort_ext. intros k _.
      pose proof (NoDup_keys_perm X X' HnX HX) as HnX'.
      rewrite !(keys_raw_neg unit tt tt (fun _ _ => tt) (fun _ _ => tt) (fun _ _ => tt) (fun _ => tt));
        try assumption.
      apply perm_in_iff, perm_keys, HX.
  Qed.
  Lemma good_involution g (f : op1) :
    (forall T OT A0 x, f T OT A0 x = canon_sort A0 (raw_involution OT g x)) -> natural1 f ->
    (forall x x', NoDup (keys x) -> NoDup (keys x') -> x == x' -> f R O A x == f R O A x') -> good1 f.
  Proof.
    intros Hf Hn Hc. constructor; [exact Hn | exact Hc | intros; rewrite Hf; apply sorted_wf |].
    intros X X' HnX HX. rewrite !Hf. apply unit_mv_eq. apply keys_canon_sort_ext. intros k _.
    pose proof (NoDup_keys_perm X X' HnX HX) as HnX'.
    rewrite !(keys_raw_involution unit tt tt (fun _ _ => tt) (fun _ _ => tt) (fun _ _ => tt) (fun _ => tt));
      try assumption.
    apply perm_in_iff, perm_keys, HX.
  Qed.
  Lemma good_reverse : good1 (@reverse).
  Proof. apply (good_involution grades_reverse); [reflexivity | exact natural_reverse |].
    intros. apply (reverse_congr R rO rI radd rmul rsub ropp Rth); assumption. Qed.
  Lemma good_involute : good1 (@involute).
  Proof. apply (good_involution grades_involute); [reflexivity | exact natural_involute |].
    intros. apply (involute_congr R rO rI radd rmul rsub ropp Rth); assumption. Qed.
  Lemma good_conjugate : good1 (@conjugate).
  Proof. apply (good_involution grades_conjugate); [reflexivity | exact natural_conjugate |].
    intros. apply (conjugate_congr R rO rI radd rmul rsub ropp Rth); assumption. Qed.
  Lemma good_hodge : good1 (@hodge).
  Proof.
    constructor.
    - exact natural_hodge.
    - intros. apply (hodge_congr R rO rI radd rmul rsub ropp Rth); assumption.
    - intros. apply sorted_wf.
    - intros X X' HnX HX. apply unit_mv_eq. apply keys_canon_sort_ext. intros k _.
      pose proof (NoDup_keys_perm X X' HnX HX) as HnX'.
      rewrite !(keys_raw_hodge unit tt tt (fun _ _ => tt) (fun _ _ => tt) (fun _ _ => tt) (fun _ => tt));
        try assumption.
      apply perm_in_iff, Permutation_map, perm_keys, HX.
  Qed.
  Lemma good_unhodge : good1 (@unhodge).
  Proof.
    constructor.
    - exact natural_unhodge.
    - intros. apply (unhodge_congr R rO rI radd rmul rsub ropp Rth); assumption.
    - intros. apply sorted_wf.
    - intros X X' HnX HX. apply unit_mv_eq. apply keys_canon_sort_ext. intros k _.
      pose proof (NoDup_keys_perm X X' HnX HX) as HnX'.
      rewrite !(keys_raw_unhodge unit tt tt (fun _ _ => tt) (fun _ _ => tt) (fun _ _ => tt) (fun _ => tt));
        try assumption.
      apply perm_in_iff, Permutation_map, perm_keys, HX.
  Qed.

  Lemma good_gp : good2 (@gp).
  Proof. exact (good_product (fun A0 => sgn A0) (fun _ => None) (fun _ => Z.lxor)). Qed.
  Lemma good_op : good2 (@op).
  Proof. exact (good_product (fun A0 => sgn A0) (fun _ => Some filter_op) (fun _ => Z.lxor)). Qed.
  Lemma good_ip : good2 (@ip).
  Proof. exact (good_product (fun A0 => sgn A0) (fun _ => Some filter_ip) (fun _ => Z.lxor)). Qed.
  Lemma good_lc : good2 (@lc).
  Proof. exact (good_product (fun A0 => sgn A0) (fun _ => Some filter_lc) (fun _ => Z.lxor)). Qed.
  Lemma good_rc : good2 (@rc).
  Proof. exact (good_product (fun A0 => sgn A0) (fun _ => Some filter_rc) (fun _ => Z.lxor)). Qed.
  Lemma good_sp : good2 (@sp).
  Proof. exact (good_product (fun A0 => sgn A0) (fun _ => Some filter_sp) (fun _ => Z.lxor)). Qed.
  Lemma good_cp : good2 (@cp).
  Proof. exact (good_product (fun A0 => sgn A0) (fun A0 => Some (filter_cp (sgn A0))) (fun _ => Z.lxor)). Qed.
  Lemma good_acp : good2 (@acp).
  Proof. exact (good_product (fun A0 => sgn A0) (fun A0 => Some (filter_acp (sgn A0))) (fun _ => Z.lxor)). Qed.
  Lemma good_rp : good2 (@rp).
  Proof. exact (good_product (fun A0 => sign_rp (sgn A0) (alg_len A0)) (fun A0 => Some (filter_rp (alg_len A0)))
                             (fun A0 => keyout_rp (alg_len A0))). Qed.

  (* compositions *)
  Lemma equiv_refl' (x : mv R) : x == x. Proof. intros K. reflexivity. Qed.
  Lemma good_comp_l (f g : op2) (h : op1) : good2 f -> good2 g -> good1 h ->
    good2 (fun T OT A0 x y => f T OT A0 (g T OT A0 x y) (h T OT A0 x)).
  Proof.
    intros Gf Gg Gh. constructor.
    - intros T1 T2 O1 O2 m Hm A0 x y. rewrite (g2_nat f Gf T1 T2 O1 O2 m Hm), (g2_nat g Gg T1 T2 O1 O2 m Hm), (g1_nat h Gh T1 T2 O1 O2 m Hm). reflexivity.
    - intros x x' y y' Hx Hx' Hy Hy' Ex Ey. apply (g2_congr f Gf);
        try apply (g2_wf g Gg); try apply (g1_wf h Gh); [apply (g2_congr g Gg) | apply (g1_congr h Gh)]; assumption.
    - intros. apply (g2_wf f Gf).
    - intros X X' Y Y' HnX HnY HX HY. rewrite (g2_perm g Gg X X' Y Y' HnX HnY HX HY), (g1_perm h Gh X X' HnX HX). reflexivity.
  Qed.
  Lemma good_comp_r (f g : op2) (h : op1) : good2 f -> good2 g -> good1 h ->
    good2 (fun T OT A0 x y => f T OT A0 (g T OT A0 x y) (h T OT A0 y)).
  Proof.
    intros Gf Gg Gh. constructor.
    - intros T1 T2 O1 O2 m Hm A0 x y. rewrite (g2_nat f Gf T1 T2 O1 O2 m Hm), (g2_nat g Gg T1 T2 O1 O2 m Hm), (g1_nat h Gh T1 T2 O1 O2 m Hm). reflexivity.
    - intros x x' y y' Hx Hx' Hy Hy' Ex Ey. apply (g2_congr f Gf);
        try apply (g2_wf g Gg); try apply (g1_wf h Gh); [apply (g2_congr g Gg) | apply (g1_congr h Gh)]; assumption.
    - intros. apply (g2_wf f Gf).
    - intros X X' Y Y' HnX HnY HX HY. rewrite (g2_perm g Gg X X' Y Y' HnX HnY HX HY), (g1_perm h Gh Y Y' HnY HY). reflexivity.
  Qed.
  Lemma good_sw : good2 (@sw).
  Proof. exact (good_comp_l (@gp) (@gp) (@reverse) good_gp good_gp good_reverse). Qed.
  Lemma good_proj : good2 (@proj).
  Proof. exact (good_comp_r (@gp) (@ip) (@reverse) good_gp good_ip good_reverse). Qed.
  Lemma good_normsq : good1 (@normsq).
  Proof.
    constructor.
    - exact natural_normsq.
    - intros x x' Hx Hx' Ex. apply (g2_congr _ good_gp); try assumption; try apply (g1_wf _ good_reverse).
      apply (g1_congr _ good_reverse); assumption.
    - intros. apply (g2_wf _ good_gp).
    - intros X X' HnX HX. change (gp Uops A X (reverse Uops A X) = gp Uops A X' (reverse Uops A X')).
      rewrite (g1_perm _ good_reverse X X' HnX HX). apply (g2_perm _ good_gp); try assumption; [apply (g1_wf _ good_reverse) | apply Permutation_refl].
  Qed.
  Lemma good_unpolarity : good1 (@unpolarity).
  Proof.
    constructor.
    - exact natural_unpolarity.
    - intros x x' Hx Hx' Ex. apply (g2_congr _ good_gp); try assumption; try (cbn; repeat constructor; intros []); try apply equiv_refl'.
    - intros. apply (g2_wf _ good_gp).
    - intros X X' HnX HX. apply (g2_perm _ good_gp); try assumption; [cbn; repeat constructor; intros [] | apply Permutation_refl].
  Qed.

  Lemma poly2_good op f : sassoc op poly2_table = Some f -> good2 f.
  Proof.
    unfold poly2_table. cbn [sassoc]. intros H.
    repeat match type of H with (if ?c then _ else _) = _ => destruct c; [inversion H; subst f; clear H|] end; try discriminate;
      first [exact good_gp | exact good_op | exact good_ip | exact good_lc | exact good_rc | exact good_sp | exact good_cp
            | exact good_acp | exact good_rp | exact good_add | exact good_sub | exact good_sw | exact good_proj].
  Qed.
  Lemma poly1_good op f : sassoc op poly1_table = Some f -> good1 f.
  Proof.
    unfold poly1_table. cbn [sassoc]. intros H.
    repeat match type of H with (if ?c then _ else _) = _ => destruct c; [inversion H; subst f; clear H|] end; try discriminate;
      first [exact good_neg | exact good_reverse | exact good_involute | exact good_conjugate | exact good_hodge | exact good_unhodge
            | exact good_unpolarity | exact good_normsq].
  Qed.

  (* ---------------- the operators that are not modelled: hypotheses ---------------- *)
  Variable ext : optable R.
  Local Notation wfm' := (wfm R A).
  Record ext_ok : Prop := mkExtOk {
    ex_static : forall op kin kin' ko f, Forall (wfk A) kin -> Forall2 (@Permutation Z) kin kin' ->
      ext op kin = Ok (ko, f) -> exists ko' f', ext op kin' = Ok (ko', f') /\ Permutation ko ko';
    ex_wf : forall op kin ko f, Forall (wfk A) kin -> ext op kin = Ok (ko, f) -> wfk A ko;
    ex_len : forall op kin ko f vs r, ext op kin = Ok (ko, f) ->
      Forall2 (fun ks v => length v = length ks) kin vs -> f vs = Ok r -> length r = length ko;
    (* inverse, division, square root do not depend on the storage order of their operand (C08 for them) *)
    ex_perm : forall op xs xs' m, Forall wfm' xs -> Forall2 (@Permutation (Z * R)) xs xs' ->
      call_op ext op xs = Ok m -> exists m', call_op ext op xs' = Ok m' /\ Permutation m m';
  }.
  Hypothesis Hext : ext_ok.
  Local Notation sopd := (std_opd O A ext).
  Local Notation scall := (call_op sopd).

  Lemma keys_via_unit2 f : natural2 f -> forall x y,
    keys (f R O A x y) = keys (f unit Uops A (ksym (keys x)) (ksym (keys y))).
  Proof.
    intros Hn x y. rewrite <- (keys_map_mv (fun _ : R => tt)). rewrite (Hn R unit O Uops _ unit_hom A x y).
    rewrite !map_tt. reflexivity.
  Qed.
  Lemma keys_via_unit1 f : natural1 f -> forall x, keys (f R O A x) = keys (f unit Uops A (ksym (keys x))).
  Proof.
    intros Hn x. rewrite <- (keys_map_mv (fun _ : R => tt)). rewrite (Hn R unit O Uops _ unit_hom A x).
    rewrite !map_tt. reflexivity.
  Qed.

  Lemma perm_equiv (x x' : mv R) : NoDup (keys x) -> Permutation x x' -> x == x'.
  Proof.
    intros Hn Hp K. pose proof (NoDup_keys_perm x x' Hn Hp) as Hn'.
    destruct (in_dec Z.eq_dec K (keys x)) as [Hin|Hni].
    - destruct (in_keys_ex x K Hin) as [v Hv].
      rewrite (coeff_in R rO rI radd rmul rsub ropp K v x Hn Hv).
      rewrite (coeff_in R rO rI radd rmul rsub ropp K v x' Hn' (Permutation_in _ Hp Hv)). reflexivity.
    - rewrite !(coeff_notin R rO rI radd rmul rsub ropp); [reflexivity | | exact Hni].
      intros H. apply Hni. eapply Permutation_in; [apply Permutation_sym, perm_keys; exact Hp | exact H].
  Qed.

  (* a call of a polynomial operator of the table returns the model operator applied to the operands *)
  Lemma std_call2 op f x y : sassoc op poly2_table = Some f -> scall op [x; y] = Ok (f R O A x y).
  Proof.
    intros Hs. pose proof (poly2_good op f Hs) as G.
    unfold call_op, std_opd. cbn [map]. rewrite Hs. cbn [bind gen2 fst snd].
    rewrite !length_vals, !length_keys, !Nat.eqb_refl. cbn [andb bind]. rewrite !combine_keys_vals.
    rewrite <- (keys_via_unit2 f (g2_nat f G)). rewrite combine_keys_vals. reflexivity.
  Qed.
  Lemma poly1_not_polarity op f : sassoc op poly1_table = Some f -> String.eqb op "polarity" = false.
  Proof.
    intros H. destruct (String.eqb_spec op "polarity") as [E|E]; [|reflexivity]. subst op. vm_compute in H. discriminate.
  Qed.
  Lemma std_call1 op f x : sassoc op poly1_table = Some f -> scall op [x] = Ok (f R O A x).
  Proof.
    intros Hs. pose proof (poly1_good op f Hs) as G.
    unfold call_op, std_opd. cbn [map]. rewrite (poly1_not_polarity op f Hs), Hs. cbn [bind gen1 fst snd].
    rewrite !length_vals, !length_keys, !Nat.eqb_refl. cbn [bind]. rewrite !combine_keys_vals.
    rewrite <- (keys_via_unit1 f (g1_nat f G)). rewrite combine_keys_vals. reflexivity.
  Qed.

  (* polarity: the branch depends on the algebra only *)
  Lemma polarity_unit_keys (x : mv R) r : polarity O A x = Ok r ->
    exists ku, polarity Uops A (ksym (keys x)) = Ok ku /\ keys ku = keys r.
  Proof.
    intros H. pose proof (nat_polarity O Uops (fun _ : R => tt) unit_hom A x) as Hn. rewrite H in Hn. cbn [map_res] in Hn.
    rewrite !map_tt in Hn. eexists. split; [symmetry; exact Hn|]. apply keys_ksym.
  Qed.
  Lemma polarity_unit_ok (x : mv R) ku : polarity Uops A (ksym (keys x)) = Ok ku -> exists r, polarity O A x = Ok r.
  Proof.
    intros H. pose proof (nat_polarity O Uops (fun _ : R => tt) unit_hom A x) as Hn. rewrite map_tt, H in Hn.
    destruct (polarity O A x) as [r|e]; [eauto | discriminate].
  Qed.
  Lemma std_call_polarity x : scall "polarity" [x] = polarity O A x.
  Proof.
    unfold call_op, std_opd. cbn [map]. change (String.eqb "polarity" "polarity") with true. cbn iota.
    unfold gen_polarity. destruct (polarity O A x) as [r|e] eqn:Hp.
    - destruct (polarity_unit_keys x r Hp) as [ku [Hu Hk]]. rewrite Hu. cbn [bind fst snd].
      rewrite length_vals, length_keys, Nat.eqb_refl. rewrite combine_keys_vals, Hp. cbn [bind].
      rewrite Hk. rewrite combine_keys_vals. reflexivity.
    - destruct (polarity Uops A (ksym (keys x))) as [ku|e'] eqn:Hu.
      + destruct (polarity_unit_ok x ku Hu) as [r Hr]. congruence.
      + cbn [bind]. pose proof (nat_polarity O Uops (fun _ : R => tt) unit_hom A x) as Hn.
        rewrite map_tt, Hu, Hp in Hn. cbn in Hn. inversion Hn; subst. reflexivity.
  Qed.

  (* ---------------- facts about the algebra ---------------- *)
  Lemma alg_len_pos : 0 < alg_len A.
  Proof. unfold alg_len. apply Z.pow_pos_nonneg; lia. Qed.
  Lemma zero_canon : In 0 (canon_keys A).
  Proof. apply (sh_keys A SH). pose proof alg_len_pos. lia. Qed.
  Lemma grades_nodup gs bb : indices_for_grades A gs = Ok bb -> NoDup bb.
  Proof.
    unfold indices_for_grades. destruct (strictly_inc gs) eqn:Hs; cbn [andb]; [|discriminate].
    destruct (forallb _ gs); [|discriminate]. intros H. inversion H; subst.
    exact (NoDup_indices_for_grades A (sh_keys A SH) Hnd (sh_grade A SH) gs Hs).
  Qed.
  Lemma wfm_range (x : mv R) k : wfm' x -> In k (keys x) -> 0 <= k < alg_len A.
  Proof. intros [_ Hi] Hk. apply (sh_keys A SH). apply Hi. exact Hk. Qed.

  (* ---------------- Permutation from coefficients and stored key sets ---------------- *)
  Lemma perm_of_equiv (m m' : mv R) : NoDup (keys m) -> NoDup (keys m') ->
    (forall k, In k (keys m) <-> In k (keys m')) -> m == m' -> Permutation m m'.
  Proof.
    intros Hn Hn' Hk He. apply NoDup_Permutation; [apply NoDup_keys_NoDup; exact Hn | apply NoDup_keys_NoDup; exact Hn' |].
    intros [k v]. split; intros Hin.
    - assert (Hk' : In k (keys m')) by (apply Hk; eapply in_keys_of; exact Hin).
      destruct (in_keys_ex m' k Hk') as [v' Hv'].
      pose proof (coeff_in R rO rI radd rmul rsub ropp k v m Hn Hin) as E1.
      pose proof (coeff_in R rO rI radd rmul rsub ropp k v' m' Hn' Hv') as E2.
      rewrite (He k) in E1. congruence.
    - assert (Hk' : In k (keys m)) by (apply Hk; eapply in_keys_of; exact Hin).
      destruct (in_keys_ex m k Hk') as [v' Hv'].
      pose proof (coeff_in R rO rI radd rmul rsub ropp k v m' Hn' Hin) as E1.
      pose proof (coeff_in R rO rI radd rmul rsub ropp k v' m Hn Hv') as E2.
      rewrite <- (He k) in E1. congruence.
  Qed.

  (* a scalar commutes in every product kernel that treats the scalar blade symmetrically *)
  Lemma product_scalar_comm sfun filt kout c (x : mv R) :
    (forall k, In k (keys x) -> sfun 0 k = sfun k 0 /\ kout 0 k = kout k 0
                               /\ accepts filt 0 k (kout 0 k) = accepts filt k 0 (kout k 0)) ->
    Permutation (canon_sort A (codegen_product O sfun filt kout [(0, c)] x))
                (canon_sort A (codegen_product O sfun filt kout x [(0, c)])).
  Proof.
    intros Hc. apply perm_of_equiv; try apply sorted_wf.
    - intros K. rewrite !in_keys_canon_sort, !product_keys. split; intros [HK [kx [vx [ky [vy [H1 [H2 [H3 [H4 H5]]]]]]]]]; split; try exact HK.
      + destruct H1 as [E|[]]. inversion E; subst kx vx. destruct (Hc ky (in_keys_of x ky vy H2)) as [E1 [E2 E3]].
        exists ky, vy, 0, c. rewrite <- E3, <- E1, <- E2. repeat split; auto. left; reflexivity.
      + destruct H2 as [E|[]]. inversion E; subst ky vy. destruct (Hc kx (in_keys_of x kx vx H1)) as [E1 [E2 E3]].
        exists 0, c, kx, vx. rewrite E3, E1, E2. repeat split; auto. left; reflexivity.
    - intros K. rewrite !(coeff_canon_sort R rO rI radd rmul rsub ropp). destruct (zin K (canon_keys A)); [|reflexivity].
      rewrite !(product_coeff R rO rI radd rmul rsub ropp Rth), list_prod_single_l, list_prod_single_r, !map_map.
      apply rsum_map_ext. intros [k v] Hin.
      destruct (Hc k (in_keys_of x k v Hin)) as [E1 [E2 E3]].
      unfold contrib, active. rewrite E3, E1, E2.
      destruct (negb (sfun k 0 =? 0) && accepts filt k 0 (kout k 0) && (kout k 0 =? K)); [|reflexivity].
      destruct (0 <? sfun k 0); ring.
  Qed.

  Lemma scalar_cond_gp (x : mv R) : wfm' x -> forall k, In k (keys x) ->
    sgn A 0 k = sgn A k 0 /\ Z.lxor 0 k = Z.lxor k 0 /\ accepts None 0 k (Z.lxor 0 k) = accepts None k 0 (Z.lxor k 0).
  Proof.
    intros Hw k Hk. destruct (sh_scal A SH k (wfm_range x k Hw Hk)) as [E1 E2].
    rewrite E1, E2, Z.lxor_0_l, Z.lxor_0_r. auto.
  Qed.
  Lemma scalar_cond_op (x : mv R) : wfm' x -> forall k, In k (keys x) ->
    sgn A 0 k = sgn A k 0 /\ Z.lxor 0 k = Z.lxor k 0
    /\ accepts (Some filter_op) 0 k (Z.lxor 0 k) = accepts (Some filter_op) k 0 (Z.lxor k 0).
  Proof.
    intros Hw k Hk. destruct (sh_scal A SH k (wfm_range x k Hw Hk)) as [E1 E2].
    rewrite E1, E2, Z.lxor_0_l, Z.lxor_0_r. cbn [accepts]. unfold filter_op. rewrite Z.add_0_l, Z.add_0_r. auto.
  Qed.

  Lemma add_comm_perm (x y : mv R) : NoDup (keys x) -> NoDup (keys y) -> Permutation (add O A x y) (add O A y x).
  Proof.
    intros Hx Hy. apply perm_of_equiv; try apply sorted_wf.
    - intros K. unfold add. rewrite !in_keys_canon_sort, !(keys_raw_add R rO rI radd rmul rsub ropp) by assumption.
      rewrite !in_union. tauto.
    - intros K. destruct (in_dec Z.eq_dec K (canon_keys A)) as [HK|HK].
      + rewrite !(add_coeff R rO rI radd rmul rsub ropp Rth) by assumption. ring.
      + unfold add. rewrite !(coeff_canon_sort_notin R rO rI radd rmul rsub ropp) by exact HK. reflexivity.
  Qed.
  Lemma sub_as_add_neg (x y : mv R) : wfm' y -> NoDup (keys x) ->
    Permutation (sub O A x y) (add O A (neg O A y) x).
  Proof.
    intros [Hy Hyi] Hx. pose proof (proj1 (sorted_wf (raw_neg O y))) as Hnn.
    apply perm_of_equiv; try apply sorted_wf.
    - intros K. unfold sub, add. rewrite !in_keys_canon_sort.
      rewrite (keys_raw_sub R rO rI radd rmul rsub ropp) by assumption.
      rewrite (keys_raw_add R rO rI radd rmul rsub ropp) by assumption.
      rewrite !in_union. unfold neg. rewrite in_keys_canon_sort, (keys_raw_neg R rO rI radd rmul rsub ropp) by exact Hy.
      split; intros [HK H]; (split; [exact HK|]); tauto.
    - intros K. destruct (in_dec Z.eq_dec K (canon_keys A)) as [HK|HK].
      + rewrite (sub_coeff R rO rI radd rmul rsub ropp Rth) by assumption.
        rewrite (add_coeff R rO rI radd rmul rsub ropp Rth) by assumption.
        rewrite (neg_coeff R rO rI radd rmul rsub ropp Rth) by assumption. ring.
      + unfold sub, add. rewrite !(coeff_canon_sort_notin R rO rI radd rmul rsub ropp) by exact HK. reflexivity.
  Qed.

  (* the scalar blade alone *)
  Lemma cs_notin {T} k (v : T) L : ~ In k L -> flat_map (fun k1 => if Z.eqb k k1 then [(k1, v)] else []) L = [].
  Proof.
    induction L as [|k1 L IH]; intros Hn; [reflexivity|]. cbn [flat_map].
    destruct (Z.eqb_spec k k1) as [E|E]; [exfalso; apply Hn; left; auto|]. cbn [app]. apply IH. intros H. apply Hn. right; exact H.
  Qed.
  Lemma cs_in {T} k (v : T) L : NoDup L -> In k L -> flat_map (fun k1 => if Z.eqb k k1 then [(k1, v)] else []) L = [(k, v)].
  Proof.
    induction L as [|k1 L IH]; intros Hn Hi; [contradiction|]. inversion Hn as [|? ? Hni Hn']; subst.
    cbn [flat_map]. destruct (Z.eqb_spec k k1) as [E|E].
    - subst k1. rewrite (cs_notin k v L Hni). reflexivity.
    - cbn [app]. apply IH; [exact Hn'|]. destruct Hi as [Hi|Hi]; [congruence | exact Hi].
  Qed.
  Lemma canon_sort_single {T} k (v : T) : In k (canon_keys A) -> canon_sort A [(k, v)] = [(k, v)].
  Proof.
    intros Hin. unfold canon_sort.
    transitivity (flat_map (fun k1 => if Z.eqb k k1 then [(k1, v)] else []) (canon_keys A)).
    - apply flat_map_ext. intros k1. cbn [zassoc]. destruct (Z.eqb k k1); reflexivity.
    - apply cs_in; [exact Hnd | exact Hin].
  Qed.
  Lemma sgn00 : sgn A 0 0 = 1.
  Proof. apply (sh_scal A SH 0). pose proof alg_len_pos. lia. Qed.
  Lemma add_scalars a b : add O A [(0, a)] [(0, b)] = [(0, radd a b)].
  Proof. unfold add, raw_add. cbn. apply canon_sort_single, zero_canon. Qed.
  Lemma sub_scalars a b : sub O A [(0, a)] [(0, b)] = [(0, rsub a b)].
  Proof. unfold sub, raw_sub. cbn. apply canon_sort_single, zero_canon. Qed.
  Lemma neg_scalar a : neg O A [(0, a)] = [(0, ropp a)].
  Proof. unfold neg, raw_neg. cbn. apply canon_sort_single, zero_canon. Qed.
  Lemma gp_scalars a b : gp O A [(0, a)] [(0, b)] = [(0, rmul a b)].
  Proof.
    unfold gp, raw_gp, codegen_product. cbn [list_prod map app fold_left product_step]. rewrite sgn00. cbn.
    apply canon_sort_single, zero_canon.
  Qed.

  (* ---------------- the table of Model/Tape.v is well-behaved ---------------- *)
  Lemma sopd2 op kx ky : sopd op [kx; ky]
    = match sassoc op poly2_table with Some f => Ok (gen2 O A f kx ky) | None => ext op [kx; ky] end.
  Proof. reflexivity. Qed.
  Lemma sopd1 op kx : sopd op [kx]
    = if String.eqb op "polarity" then gen_polarity O A kx
      else match sassoc op poly1_table with Some f => Ok (gen1 O A f kx) | None => ext op [kx] end.
  Proof. reflexivity. Qed.
  Lemma NoDup_ksym ks : NoDup ks -> NoDup (keys (ksym ks)).
  Proof. rewrite keys_ksym. auto. Qed.

  Lemma polarity_unit_perm (X X' : mv unit) : NoDup (keys X) -> Permutation X X' -> polarity Uops A X = polarity Uops A X'.
  Proof.
    intros Hn Hp. unfold polarity.
    rewrite (g1_perm _ good_neg X X' Hn Hp).
    rewrite (g2_perm _ good_gp X X' (pss_mv Uops A) (pss_mv Uops A) Hn); [reflexivity | | exact Hp | apply Permutation_refl].
    cbn. repeat constructor. intros [].
  Qed.
  Lemma polarity_wf {T} (OT : ops T) (x r : mv T) : polarity OT A x = Ok r -> NoDup (keys r) /\ incl (keys r) (canon_keys A).
  Proof.
    unfold polarity. destruct (sgn A (pss_key A) (pss_key A) =? -1); [intros H; inversion H; apply sorted_wf|].
    destruct (sgn A (pss_key A) (pss_key A) =? 1); [intros H; inversion H; apply sorted_wf|].
    destruct (sgn A (pss_key A) (pss_key A) =? 0); discriminate.
  Qed.

  Lemma Forall2_length' {X Y} (P : X -> Y -> Prop) l l' : Forall2 P l l' -> length l = length l'.
  Proof. induction 1; cbn; congruence. Qed.
  Lemma Forall2_len2 {X Y} (P : X -> Y -> Prop) a b l' : Forall2 P [a; b] l' -> exists a' b', l' = [a'; b'] /\ P a a' /\ P b b'.
  Proof. intros H. inversion H as [|? a' ? r1 Ha H1]; subst. inversion H1 as [|? b' ? r2 Hb H2]; subst. inversion H2; subst. eauto 6. Qed.
  Lemma Forall2_len1 {X Y} (P : X -> Y -> Prop) a l' : Forall2 P [a] l' -> exists a', l' = [a'] /\ P a a'.
  Proof. intros H. inversion H as [|? a' ? r1 Ha H1]; subst. inversion H1; subst. eauto. Qed.
  Lemma sopd_ext_shape op kin kin' : (forall (X : Type) (P : list Z -> list Z -> Prop), True) ->
    Forall2 (@Permutation Z) kin kin' -> length kin <> 1%nat -> length kin <> 2%nat ->
    sopd op kin = ext op kin /\ sopd op kin' = ext op kin'.
  Proof.
    intros _ Hp H1 H2. pose proof (Forall2_length' _ _ _ Hp) as Hl.
    destruct kin as [|a [|b [|c r]]], kin' as [|a' [|b' [|c' r']]]; cbn in *; try lia; split; reflexivity.
  Qed.

  Theorem std_opd_ok : optable_ok R radd rmul rsub ropp A sopd.
  Proof.
    constructor.
    - (* ok_static *)
      intros op kin kin' ko f Hk Hp H.
      destruct kin as [|kx [|ky [|kz kr]]].
      + inversion Hp; subst. change (sopd op []) with (ext op []) in *. exact (ex_static Hext op [] [] ko f Hk Hp H).
      + destruct (Forall2_len1 _ _ _ Hp) as [kx' [E Px]]. subst kin'. rewrite sopd1 in H |- *.
        inversion Hk as [|? ? Hkx _]; subst.
        destruct (String.eqb op "polarity").
        * unfold gen_polarity in H |- *. inv_bindn H as ku Hku. inversion H; subst ko f. clear H.
          rewrite <- (polarity_unit_perm (ksym kx) (ksym kx') (NoDup_ksym kx (proj1 Hkx)) (ksym_perm _ _ Px)), Hku. cbn [bind].
          eexists _, _. split; [reflexivity | apply Permutation_refl].
        * destruct (sassoc op poly1_table) as [g|] eqn:Hs; [|exact (ex_static Hext op [kx] [kx'] ko f Hk Hp H)].
          inversion H; subst ko f. clear H. eexists _, _. split; [reflexivity|]. cbn [gen1 fst].
          rewrite (g1_perm g (poly1_good op g Hs) (ksym kx) (ksym kx') (NoDup_ksym kx (proj1 Hkx)) (ksym_perm _ _ Px)).
          apply Permutation_refl.
      + destruct (Forall2_len2 _ _ _ _ Hp) as [kx' [ky' [E [Px Py]]]]. subst kin'. rewrite sopd2 in H |- *.
        inversion Hk as [|? ? Hkx Hk']; subst. inversion Hk' as [|? ? Hky _]; subst.
        destruct (sassoc op poly2_table) as [g|] eqn:Hs; [|exact (ex_static Hext op [kx; ky] [kx'; ky'] ko f Hk Hp H)].
        inversion H; subst ko f. clear H. eexists _, _. split; [reflexivity|]. cbn [gen2 fst].
        rewrite (g2_perm g (poly2_good op g Hs) (ksym kx) (ksym kx') (ksym ky) (ksym ky')
                   (NoDup_ksym kx (proj1 Hkx)) (NoDup_ksym ky (proj1 Hky)) (ksym_perm _ _ Px) (ksym_perm _ _ Py)).
        apply Permutation_refl.
      + destruct (sopd_ext_shape op (kx :: ky :: kz :: kr) kin' (fun _ _ => I) Hp) as [E1 E2]; [cbn; lia | cbn; lia |].
        rewrite E1 in H. rewrite E2. exact (ex_static Hext op _ kin' ko f Hk Hp H).
    - (* ok_wf *)
      intros op kin ko f Hk H.
      destruct kin as [|kx [|ky [|kz kr]]]; try exact (ex_wf Hext op _ ko f Hk H).
      + rewrite sopd1 in H. destruct (String.eqb op "polarity").
        * unfold gen_polarity in H. inv_bindn H as ku Hku. inversion H; subst ko f. exact (polarity_wf Uops _ ku Hku).
        * destruct (sassoc op poly1_table) as [g|] eqn:Hs; [|exact (ex_wf Hext op _ ko f Hk H)].
          inversion H; subst ko f. exact (g1_wf g (poly1_good op g Hs) unit Uops _).
      + rewrite sopd2 in H. destruct (sassoc op poly2_table) as [g|] eqn:Hs; [|exact (ex_wf Hext op _ ko f Hk H)].
        inversion H; subst ko f. exact (g2_wf g (poly2_good op g Hs) unit Uops _ _).
    - (* ok_len *)
      intros op kin ko f vs r H Hl Hf.
      destruct kin as [|kx [|ky [|kz kr]]]; try exact (ex_len Hext op _ ko f vs r H Hl Hf).
      + destruct (Forall2_len1 _ _ _ Hl) as [vx [E Lx]]. subst vs. rewrite sopd1 in H. destruct (String.eqb op "polarity").
        * unfold gen_polarity in H. inv_bindn H as ku Hku. inversion H; subst ko f. clear H. cbn beta iota in Hf.
          rewrite Lx, Nat.eqb_refl in Hf. inv_bindn Hf as r0 Hr0. inversion Hf; subst r.
          destruct (polarity_unit_keys (combine kx vx) r0 Hr0) as [ku' [Hu' Hk']].
          rewrite keys_combine in Hu' by exact Lx. rewrite Hku in Hu'. inversion Hu'; subst ku'.
          rewrite length_vals, <- (length_keys r0), <- Hk'. reflexivity.
        * destruct (sassoc op poly1_table) as [g|] eqn:Hs; [|exact (ex_len Hext op _ ko f _ r H Hl Hf)].
          inversion H; subst ko f. clear H. cbn beta iota in Hf. rewrite Lx, Nat.eqb_refl in Hf. inversion Hf; subst r.
          rewrite length_vals, <- (length_keys (g R O A _)), (keys_via_unit1 g (g1_nat g (poly1_good op g Hs))).
          rewrite keys_combine by exact Lx. reflexivity.
      + destruct (Forall2_len2 _ _ _ _ Hl) as [vx [vy [E [Lx Ly]]]]. subst vs. rewrite sopd2 in H.
        destruct (sassoc op poly2_table) as [g|] eqn:Hs; [|exact (ex_len Hext op _ ko f _ r H Hl Hf)].
        inversion H; subst ko f. clear H. cbn beta iota in Hf. rewrite Lx, Ly, !Nat.eqb_refl in Hf. cbn [andb] in Hf. inversion Hf; subst r.
        rewrite length_vals, <- (length_keys (g R O A _ _)), (keys_via_unit2 g (g2_nat g (poly2_good op g Hs))).
        rewrite !keys_combine by assumption. reflexivity.
    - (* ok_perm *)
      intros op xs xs' m Hw Hp H.
      assert (Hext_case : scall op xs = call_op ext op xs -> scall op xs' = call_op ext op xs' ->
                          exists m', scall op xs' = Ok m' /\ Permutation m m').
      { intros E1 E2. rewrite E1 in H. rewrite E2. exact (ex_perm Hext op xs xs' m Hw Hp H). }
      destruct xs as [|x [|y [|z xr]]].
      + inversion Hp; subst. apply Hext_case; reflexivity.
      + destruct (Forall2_len1 _ _ _ Hp) as [x' [E Px]]. subst xs'. inversion Hw as [|? ? Hwx _]; subst.
        destruct (String.eqb_spec op "polarity") as [Eo|Eo].
        * subst op. rewrite std_call_polarity in H |- *.
          pose proof (polarity_wf O x m H) as [Hn1 _].
          destruct (polarity_unit_keys x m H) as [ku [Hu Hk]].
          rewrite (polarity_unit_perm (ksym (keys x)) (ksym (keys x')) (NoDup_ksym _ (proj1 Hwx)) (ksym_perm _ _ (perm_keys _ _ Px))) in Hu.
          destruct (polarity_unit_ok x' ku Hu) as [m' Hm']. exists m'. split; [exact Hm'|].
          destruct (polarity_unit_keys x' m' Hm') as [ku' [Hu' Hk']]. rewrite Hu in Hu'. inversion Hu'; subst ku'.
          rewrite (eq_of_equiv m m'); [apply Permutation_refl | congruence | exact Hn1 |].
          (* coefficients: polarity is gp with the pseudoscalar (of x or of -x) *)
          revert H Hm'. unfold polarity.
          destruct (sgn A (pss_key A) (pss_key A) =? -1).
          { intros H Hm'. inversion H; inversion Hm'; subst.
            apply (g2_congr _ good_gp);
              [apply (g1_wf _ good_neg) | apply (g1_wf _ good_neg) | cbn; repeat constructor; intros [] | cbn; repeat constructor; intros []
              | | apply equiv_refl'].
            apply (g1_congr _ good_neg); [exact (proj1 Hwx) | exact (NoDup_keys_perm x x' (proj1 Hwx) Px) | exact (perm_equiv x x' (proj1 Hwx) Px)]. }
          destruct (sgn A (pss_key A) (pss_key A) =? 1).
          { intros H Hm'. inversion H; inversion Hm'; subst.
            apply (g2_congr _ good_gp);
              [exact (proj1 Hwx) | exact (NoDup_keys_perm x x' (proj1 Hwx) Px) | cbn; repeat constructor; intros [] | cbn; repeat constructor; intros []
              | exact (perm_equiv x x' (proj1 Hwx) Px) | apply equiv_refl']. }
          destruct (sgn A (pss_key A) (pss_key A) =? 0); discriminate.
        * destruct (sassoc op poly1_table) as [g|] eqn:Hs.
          -- pose proof (poly1_good op g Hs) as G. rewrite (std_call1 op g x Hs) in H. inversion H; subst m.
             exists (g R O A x'). split; [exact (std_call1 op g x' Hs)|].
             rewrite (eq_of_equiv (g R O A x) (g R O A x')); [apply Permutation_refl | | apply (g1_wf g G) |].
             ++ rewrite !(keys_via_unit1 g (g1_nat g G)).
                rewrite (g1_perm g G (ksym (keys x)) (ksym (keys x')) (NoDup_ksym _ (proj1 Hwx)) (ksym_perm _ _ (perm_keys _ _ Px))). reflexivity.
             ++ apply (g1_congr g G); [exact (proj1 Hwx) | exact (NoDup_keys_perm x x' (proj1 Hwx) Px) | exact (perm_equiv x x' (proj1 Hwx) Px)].
          -- apply Hext_case; unfold call_op; cbn [map]; rewrite sopd1;
               (destruct (String.eqb_spec op "polarity"); [contradiction|]); rewrite Hs; reflexivity.
      + destruct (Forall2_len2 _ _ _ _ Hp) as [x' [y' [E [Px Py]]]]. subst xs'.
        inversion Hw as [|? ? Hwx Hw']; subst. inversion Hw' as [|? ? Hwy _]; subst.
        destruct (sassoc op poly2_table) as [g|] eqn:Hs.
        * pose proof (poly2_good op g Hs) as G. rewrite (std_call2 op g x y Hs) in H. inversion H; subst m.
          exists (g R O A x' y'). split; [exact (std_call2 op g x' y' Hs)|].
          rewrite (eq_of_equiv (g R O A x y) (g R O A x' y')); [apply Permutation_refl | | apply (g2_wf g G) |].
          -- rewrite !(keys_via_unit2 g (g2_nat g G)).
             rewrite (g2_perm g G (ksym (keys x)) (ksym (keys x')) (ksym (keys y)) (ksym (keys y'))
                        (NoDup_ksym _ (proj1 Hwx)) (NoDup_ksym _ (proj1 Hwy))
                        (ksym_perm _ _ (perm_keys _ _ Px)) (ksym_perm _ _ (perm_keys _ _ Py))). reflexivity.
          -- apply (g2_congr g G); try exact (proj1 Hwx); try exact (proj1 Hwy);
               [exact (NoDup_keys_perm x x' (proj1 Hwx) Px) | exact (NoDup_keys_perm y y' (proj1 Hwy) Py)
               | exact (perm_equiv x x' (proj1 Hwx) Px) | exact (perm_equiv y y' (proj1 Hwy) Py)].
        * apply Hext_case; unfold call_op; cbn [map]; rewrite sopd2, Hs; reflexivity.
      + pose proof (Forall2_length' _ _ _ Hp) as Hl. destruct xs' as [|a' [|b' [|c' r']]]; cbn in Hl; try lia.
        apply Hext_case; reflexivity.
    - (* number * x *)
      intros c x m Hw H. rewrite (std_call2 "gp" (@gp)) in H by reflexivity. inversion H; subst m.
      eexists. split; [apply (std_call2 "gp" (@gp)); reflexivity|].
      apply (product_scalar_comm (sgn A) None Z.lxor c x). apply scalar_cond_gp. exact Hw.
    - (* number ^ x *)
      intros c x m Hw H. rewrite (std_call2 "op" (@op)) in H by reflexivity. inversion H; subst m.
      eexists. split; [apply (std_call2 "op" (@op)); reflexivity|].
      apply (product_scalar_comm (sgn A) (Some filter_op) Z.lxor c x). apply scalar_cond_op. exact Hw.
    - (* x + number *)
      intros c x m Hw H. rewrite (std_call2 "add" (@add)) in H by reflexivity. inversion H; subst m.
      eexists. split; [apply (std_call2 "add" (@add)); reflexivity|].
      apply add_comm_perm; [exact (proj1 Hw) | cbn; repeat constructor; intros []].
    - (* number - x *)
      intros c x m Hw H. rewrite (std_call2 "sub" (@sub)) in H by reflexivity. inversion H; subst m.
      exists (neg O A x), (add O A (neg O A x) [(0, c)]).
      split; [apply (std_call1 "neg" (@neg)); reflexivity|].
      split; [apply (std_call2 "add" (@add)); reflexivity|].
      apply sub_as_add_neg; [exact Hw | cbn; repeat constructor; intros []].
    - intros a b. rewrite (std_call2 "add" (@add)) by reflexivity. rewrite add_scalars. reflexivity.
    - intros a b. rewrite (std_call2 "sub" (@sub)) by reflexivity. rewrite sub_scalars. reflexivity.
    - intros a b. rewrite (std_call2 "gp" (@gp)) by reflexivity. rewrite gp_scalars. reflexivity.
    - intros a. rewrite (std_call1 "neg" (@neg)) by reflexivity. rewrite neg_scalar. reflexivity.
  Qed.
End Concrete.


(* ================= 3. C11 for the table of Model/Tape.v ================= *)

Section C11.
  Variable R : Type.
  Variables (rO rI : R) (radd rmul rsub : R -> R -> R) (ropp : R -> R).
  Hypothesis Rth : ring_theory rO rI radd rmul rsub ropp (@eq R).
  Local Notation O := (mkOps R radd rsub rmul ropp rO rI).
  Local Notation "x == y" := (Sparse.equiv rO rI radd rmul rsub ropp x y) (at level 70, no associativity).
  Variable A : alg.
  Hypothesis Hwf : wf_alg A = true.
  Variable ext : optable R.
  Hypothesis Hext : ext_ok R A ext.
  Variable bodies : list (expr R).
  Local Notation opd := (std_opd O A ext).
  Local Notation plain := (plain_call O A opd mv_methods tape_methods bodies).
  Local Notation reg := (registered O A opd tape_methods bodies).

  Let Hok := std_opd_ok R rO rI radd rmul rsub ropp Rth A Hwf ext Hext.
  Let H0 := zero_canon A Hwf.
  Let Hgr := grades_nodup A Hwf.

  Lemma reg_wf fuel k (xs : list (mv R)) m : Forall (wfm R A) xs -> reg fuel k xs = Ok m -> wfm R A m.
  Proof.
    intros Hw Hm.
    assert (Hrefl : Forall2 (@Permutation (Z * R)) xs xs) by (clear; induction xs; constructor; [apply Permutation_refl | assumption]).
    exact (proj1 (registered_perm R rO rI radd rmul rsub ropp A opd bodies Hok H0 fuel k xs xs m Hw Hrefl Hm)).
  Qed.

  (* f(args) returns v  ==>  alg.register(f)(args) returns the same multivector, on the supported fragment *)
  Theorem tape_agrees : forall fuel k body (xs : list (mv R)) v,
    nth_error bodies k = Some body -> supported body = true -> isnum body = false -> noswap body = true ->
    Forall (wfm R A) xs ->
    plain fuel k xs = Ok v ->
    exists m, reg fuel k xs = Ok m /\ Permutation m (as_mv v) /\ m == as_mv v.
  Proof.
    intros fuel k body xs v Hb Hs Hn Hns Hw Hp. unfold plain_call in Hp. rewrite Hb in Hp. cbn [of_opt bind] in Hp.
    destruct (registered_agrees R rO rI radd rmul rsub ropp Rth A opd bodies Hok H0 Hgr fuel k body xs v Hw Hb Hns Hp) as [_ H2].
    destruct (H2 Hs Hn) as [m [Hm Hpm]]. exists m. split; [exact Hm|]. split; [exact Hpm|].
    apply (perm_equiv R rO rI radd rmul rsub ropp); [exact (proj1 (reg_wf fuel k xs m Hw Hm)) | exact Hpm].
  Qed.

  (* for EVERY body of the expression language: if both return, they return the same multivector *)
  Theorem tape_never_differs : forall fuel k body (xs : list (mv R)) v m,
    nth_error bodies k = Some body -> noswap body = true -> Forall (wfm R A) xs ->
    plain fuel k xs = Ok v -> reg fuel k xs = Ok m ->
    Permutation m (as_mv v) /\ m == as_mv v.
  Proof.
    intros fuel k body xs v m Hb Hns Hw Hp Hm. unfold plain_call in Hp. rewrite Hb in Hp. cbn [of_opt bind] in Hp.
    destruct (registered_agrees R rO rI radd rmul rsub ropp Rth A opd bodies Hok H0 Hgr fuel k body xs v Hw Hb Hns Hp) as [H1 _].
    pose proof (H1 m Hm) as Hpm. split; [exact Hpm|].
    apply (perm_equiv R rO rI radd rmul rsub ropp); [exact (proj1 (reg_wf fuel k xs m Hw Hm)) | exact Hpm].
  Qed.

  (* the compiled function does not depend on how its arguments are stored *)
  Theorem tape_storage_independent : forall fuel k (xs xs' : list (mv R)) m,
    Forall (wfm R A) xs -> Forall2 (@Permutation (Z * R)) xs xs' ->
    reg fuel k xs = Ok m -> exists m', reg fuel k xs' = Ok m' /\ Permutation m m'.
  Proof.
    intros fuel k xs xs' m Hw Hp Hm.
    destruct (registered_perm R rO rI radd rmul rsub ropp A opd bodies Hok H0 fuel k xs xs' m Hw Hp Hm)
      as [_ [body [ko' [tb' [vs' [Eb [Er [Erun [Hl [Hk Hpm]]]]]]]]]].
    exists (combine ko' vs'). split; [|exact Hpm].
    unfold registered, compile. rewrite Eb. cbn [of_opt bind]. rewrite Er. cbn [bind]. rewrite Erun. reflexivity.
  Qed.

  (* members the recorder does not have: raise, never a value *)
  Theorem tape_outside_fragment :
    (forall o c ks t, match o with IDiv | IOr | IAnd | IRshift | IMatmul => True | _ => False end ->
       rec_infix O opd tape_methods o (RNum c) (RRec ks t) = Err EAttr) /\
    (forall m ks t r2, mlookup m tape_methods = None -> ~ In m ["__rsub__"; "__rmul__"; "__rxor__"] ->
       rec_meth2 opd tape_methods m (RRec ks t) r2 = Err EAttr) /\
    (forall m ks t, mlookup m tape_methods = None -> rec_meth1 opd tape_methods m (RRec ks t) = Err EAttr).
  Proof.
    split; [|split].
    - intros o c ks t Ho. cbn [rec_infix]. unfold rec_meth2. rewrite lk_tp_rdunder. destruct o; try contradiction; reflexivity.
    - intros m ks t r2 Hl Hn. unfold rec_meth2. rewrite Hl. unfold rec_special.
      destruct (String.eqb_spec m "__rsub__") as [E|_]; [exfalso; apply Hn; subst; cbn; auto|].
      destruct (String.eqb_spec m "__rmul__") as [E|_]; [exfalso; apply Hn; subst; cbn; auto|].
      destruct (String.eqb_spec m "__rxor__") as [E|_]; [exfalso; apply Hn; subst; cbn; auto|]. reflexivity.
    - intros m ks t Hl. unfold rec_meth1. rewrite Hl. reflexivity.
  Qed.
End C11.

(* the hypotheses on the unmodelled operators are satisfiable: a table without them *)
Lemma no_ext_ok R A : ext_ok R A (@no_ext R).
Proof. constructor; unfold no_ext, call_op; cbn; intros; discriminate. Qed.

(* examples of members outside the recorder *)
Example outside_members : mlookup "__ror__" tape_methods = None /\ mlookup "__rand__" tape_methods = None
  /\ mlookup "__rrshift__" tape_methods = None /\ mlookup "__rmatmul__" tape_methods = None
  /\ mlookup "__rtruediv__" tape_methods = None /\ mlookup "exp" tape_methods = None /\ mlookup "asfullmv" tape_methods = None.
Proof. vm_compute. repeat split. Qed.

(* ================= 4. the symbolic=True route (partial) ================= *)
(* alg.register(symbolic=True)(f) is OperatorDict(codegen=f): do_codegen runs the plain function f on
   symbolic multivectors over RationalPolynomial - i.e. [direct] over the coefficient structure Rops, where
   every operator call is followed by OperatorDict.filter (drop the coefficients that test zero) - and the
   resulting coefficient polynomials are evaluated at the argument values.  One step of that computation
   commutes with evaluation for every polynomial operator of the table (naturality, Theory/Natural.v
   C12_rpoly_subst2, and soundness of the zero filter, filter_rpoly_equiv).
   NOT proved: the induction over [expr] that assembles these steps into "the symbolic route agrees with
   [direct] on values" for the division-free fragment; and the route is known to FAIL for sqrt / norm /
   normalized (known finding F18: RationalPolynomial ** 0.5), which no such theorem can cover. *)
Theorem symbolic_step_partial : forall (R : Type) (rO rI : R) (radd rmul rsub : R -> R -> R) (ropp : R -> R)
    (Rth : ring_theory rO rI radd rmul rsub ropp (@eq R)) (rho : nat -> R) (A : alg), wf_alg A = true ->
  forall op f, sassoc op poly2_table = Some f ->
  forall X Y : mv rpoly, all_coeffs rpolyQ X -> all_coeffs rpolyQ Y ->
    Sparse.equiv rO rI radd rmul rsub ropp
      (map_mv (Poly.N R rO rI radd rmul ropp rho) (filter_nz rzero (f rpoly Rops A X Y)))
      (f R (mkOps R radd rsub rmul ropp rO rI) A (map_mv (Poly.N R rO rI radd rmul ropp rho) X)
                                                 (map_mv (Poly.N R rO rI radd rmul ropp rho) Y)).
Proof.
  intros R rO rI radd rmul rsub ropp Rth rho A Hwf op f Hs X Y HX HY.
  pose proof (poly2_good R rO rI radd rmul rsub ropp Rth A Hwf op f Hs) as G.
  rewrite <- (C12_rpoly_subst2 R rO rI radd rmul rsub ropp Rth rho f (g2_nat _ _ _ _ _ _ _ _ f G) A X Y HX HY).
  apply (filter_rpoly_equiv R rO rI radd rmul rsub ropp Rth rho).
  - apply (g2_wf _ _ _ _ _ _ _ _ f G).
  - apply (rel_closed2 Rops rpolyQ Rops_closed f (g2_nat _ _ _ _ _ _ _ _ f G)); assumption.
Qed.

(* ================= 5. a closed instance (non-vacuity) ================= *)
(* the argument hypothesis, decidably *)
Definition wfm_b (A : alg) {R} (x : mv R) : bool :=
  znd (keys x) && forallb (fun k => zin k (canon_keys A)) (keys x).
Lemma wfm_b_sound A R (x : mv R) : wfm_b A x = true -> wfm R A x.
Proof.
  unfold wfm_b. intros H. apply andb_true_iff in H. destruct H as [H1 H2]. split; [apply znd_NoDup; exact H1|].
  intros k Hk. rewrite forallb_forall in H2. apply zin_true_iff. apply H2. exact Hk.
Qed.
Lemma Forall_wfm_b A R (xs : list (mv R)) : forallb (wfm_b A) xs = true -> Forall (wfm R A) xs.
Proof. intros H. apply Forall_forall. intros x Hx. apply wfm_b_sound. rewrite forallb_forall in H. apply H. exact Hx. Qed.

Section ExampleZ.
  Local Open Scope Z_scope.
  Definition exA : alg := mk_default [1; 1] 1 false.
  (* g0(a, b) = a*b + 2 ;  f(a, b) = a.e21 * (7 - b.grade(1)) + g0(a, ~b) ** 2 *)
  Definition exbodies : list (expr Z) :=
    [EInfix IAdd (EInfix IMul (EArg 0) (EArg 1)) (ENum 2);
     EInfix IAdd (EInfix IMul (ECoeff (EArg 0) [2; 1]%nat) (EInfix ISub (ENum 7) (EGrade (EArg 1) [1%nat])))
                 (EPow (ECall 0 [EArg 0; EPrefix PInvert (EArg 1)]) 2)].
  Definition exargs : list (mv Z) := [[(3, 4); (1, 3); (2, 5)]; [(2, 1); (0, 2); (1, -1)]].
  Example example_agrees :
    exists v m, plain_call Zops exA (std_opd Zops exA no_ext) mv_methods tape_methods exbodies 40 1 exargs = Ok v /\
                registered Zops exA (std_opd Zops exA no_ext) tape_methods exbodies 40 1 exargs = Ok m /\
                Permutation m (as_mv v) /\ m <> [].
  Proof.
    assert (Hwf : wf_alg exA = true) by (vm_compute; reflexivity).
    destruct (plain_call Zops exA (std_opd Zops exA no_ext) mv_methods tape_methods exbodies 40 1 exargs) as [v|e] eqn:Hp;
      [|vm_compute in Hp; discriminate].
    destruct (tape_agrees Z 0 1 Z.add Z.mul Z.sub Z.opp InitialRing.Zth exA Hwf no_ext (no_ext_ok Z exA) exbodies 40 1
                (nth 1 exbodies (ENum 0)) exargs v) as [m [Hm [Hpm _]]]; try (vm_compute; reflexivity).
    - apply Forall_wfm_b. vm_compute. reflexivity.
    - exact Hp.
    - exists v, m. repeat split; try assumption. intros E. subst m. vm_compute in Hm. discriminate.
  Qed.
End ExampleZ.

(* ================= 6. the hand-modelled source, pinned ================= *)
(* Model/Tape.v was written against exactly this text of the members it models by hand (printed by ast.unparse,
   docstrings and comments dropped; Gen/Dunder.v is regenerated from /repo on every check).  Any edit of these
   functions makes the lemmas below fail, so the model cannot silently fall behind the code. *)
Definition pinned_mv_defs : list (string * string) := [
  ("keys", "def keys(self):
    return self._keys");
  ("values", "def values(self):
    return self._values");
  ("fromkeysvalues", "@classmethod
def fromkeysvalues(cls, algebra, keys, values):
    obj = object.__new__(cls)
    obj.algebra = algebra
    obj._values = values
    obj._keys = keys
    return obj");
  ("grade", "def grade(self, *grades):
    if len(grades) == 1 and isinstance(grades[0], tuple):
        grades = grades[0]
    vals = {k: getattr(self, self.algebra.bin2canon[k]) for k in self.algebra.indices_for_grades[grades] if k in self.keys()}
    return self.fromkeysvalues(self.algebra, tuple(vals.keys()), list(vals.values()))");
  ("__getattr__", "def __getattr__(self, basis_blade):
    if basis_blade == '__array_priority__':
        return 0
    if not re.match('^e[0-9a-fA-F]*$', basis_blade):
        raise AttributeError(f'{self.__class__.__name__} object has no attribute or basis blade {basis_blade}')
    basis_blade, swaps = self.algebra._blade2canon(basis_blade)
    if basis_blade not in self.algebra.canon2bin:
        return 0
    try:
        idx = self.keys().index(self.algebra.canon2bin[basis_blade])
    except ValueError:
        return 0
    return self._values[idx] if swaps % 2 == 0 else -self._values[idx]");
  ("__pow__", "def __pow__(self, power, modulo=None):
    if power == 0:
        return self.algebra.scalar((1,))
    elif power < 0:
        res = x = self.inv()
        power *= -1
    else:
        res = x = self
    if power == 0.5:
        return res.sqrt()
    for i in range(1, power):
        res = res.gp(x)
    return res");
  ("norm", "def norm(self):
    normsq = self.normsq()
    return normsq.sqrt()");
  ("normalized", "def normalized(self):
    return self / self.norm()");
  ("dual", "def dual(self, kind='auto'):
    if kind == 'polarity' or (kind == 'auto' and self.algebra.r == 0):
        return self.polarity()
    elif kind == 'hodge' or (kind == 'auto' and self.algebra.r == 1):
        return self.hodge()
    elif kind == 'auto':
        raise Exception('Cannot select a suitable dual in auto mode for this algebra.')
    else:
        raise ValueError(f'No dual found for kind={kind}.')");
  ("undual", "def undual(self, kind='auto'):
    if kind == 'polarity' or (kind == 'auto' and self.algebra.r == 0):
        return self.unpolarity()
    elif kind == 'hodge' or (kind == 'auto' and self.algebra.r == 1):
        return self.unhodge()
    elif kind == 'auto':
        raise Exception('Cannot select a suitable undual in auto mode for this algebra.')
    else:
        raise ValueError(f'No undual found for kind={kind}.')")
].
Lemma mv_defs_pinned : mv_defs = pinned_mv_defs.
Proof. reflexivity. Qed.
Definition pinned_tape_defs : list (string * string) := [
  ("__new__", "def __new__(cls, algebra, expr, keys):
    obj = object.__new__(cls)
    obj.algebra = algebra
    obj.expr = expr
    obj._keys = keys
    return obj");
  ("keys", "def keys(self):
    return self._keys");
  ("__getattr__", "def __getattr__(self, basis_blade):
    if not re.match('^e[0-9a-fA-F]*$', basis_blade):
        raise AttributeError(f'{self.__class__.__name__} object has no attribute or basis blade {basis_blade}')
    basis_blade, swaps = self.algebra._blade2canon(basis_blade)
    if basis_blade not in self.algebra.canon2bin:
        return self.__class__(algebra=self.algebra, expr=f'(0,)', keys=(0,))
    try:
        idx = self.keys().index(self.algebra.canon2bin[basis_blade])
    except ValueError:
        return self.__class__(algebra=self.algebra, expr=f'(0,)', keys=(0,))
    else:
        sign = '-' if swaps % 2 else ''
        return self.__class__(algebra=self.algebra, expr=f'({sign}{self.expr}[{idx}],)', keys=(0,))");
  ("grade", "def grade(self, *grades):
    if len(grades) == 1 and isinstance(grades[0], tuple):
        grades = grades[0]
    basis_blades = self.algebra.indices_for_grades[grades]
    indices_keys = [(idx, k) for idx, k in enumerate(self.keys()) if k in basis_blades]
    indices, keys = zip(*indices_keys) if indices_keys else (tuple(), tuple())
    expr = f'[{self.expr}[idx] for idx in {indices}]'
    return self.__class__(algebra=self.algebra, expr=expr, keys=keys)");
  ("binary_operator", "def binary_operator(self, other, operator: str):
    if not isinstance(other, self.__class__):
        keys_out, func = getattr(self.algebra, operator)[self.keys(), (0,)]
        expr = f'{func.__name__}({self.expr}, ({other},))'
    else:
        keys_out, func = getattr(self.algebra, operator)[self.keys(), other.keys()]
        expr = f'{func.__name__}({self.expr}, {other.expr})'
    return self.__class__(algebra=self.algebra, expr=expr, keys=keys_out)");
  ("unary_operator", "def unary_operator(self, operator: str):
    keys_out, func = getattr(self.algebra, operator)[self.keys()]
    expr = f'{func.__name__}({self.expr})'
    return self.__class__(algebra=self.algebra, expr=expr, keys=keys_out)");
  ("__rsub__", "def __rsub__(self, other):
    return other + -self");
  ("__rmul__", "def __rmul__(self, other):
    return other.gp(self) if isinstance(other, self.__class__) else self.gp(other)");
  ("__rxor__", "def __rxor__(self, other):
    return other.op(self) if isinstance(other, self.__class__) else self.op(other)");
  ("__pow__", "def __pow__(self, power, modulo=None):
    if power == 0:
        return self.__class__(self.algebra, expr='(1,)', keys=(0,))
    if power < 0:
        res = x = self.inv()
        power *= -1
    else:
        res = x = self
    for i in range(1, power):
        res = res.gp(x)
    return res");
  ("dual", "def dual(self, kind='auto'):
    if kind == 'polarity' or (kind == 'auto' and self.algebra.r == 0):
        return self.polarity()
    elif kind == 'hodge' or (kind == 'auto' and self.algebra.r == 1):
        return self.hodge()
    elif kind == 'auto':
        raise Exception('Cannot select a suitable dual in auto mode for this algebra.')
    else:
        raise ValueError(f'No dual found for kind={kind}.')");
  ("undual", "def undual(self, kind='auto'):
    if kind == 'polarity' or (kind == 'auto' and self.algebra.r == 0):
        return self.unpolarity()
    elif kind == 'hodge' or (kind == 'auto' and self.algebra.r == 1):
        return self.unhodge()
    elif kind == 'auto':
        raise Exception('Cannot select a suitable undual in auto mode for this algebra.')
    else:
        raise ValueError(f'No undual found for kind={kind}.')");
  ("norm", "def norm(self):
    normsq = self.normsq()
    return normsq.sqrt()");
  ("normalized", "def normalized(self):
    return self / self.norm()")
].
Lemma tape_defs_pinned : tape_defs = pinned_tape_defs.
Proof. reflexivity. Qed.
Definition pinned_glue_defs : list (string * string) := [
  ("OperatorDict._call_binary", "def _call_binary(self, mv1, mv2):
    while isinstance(mv1, Callable) and (not isinstance(mv1, MultiVector)):
        mv1 = mv1()
    while isinstance(mv2, Callable) and (not isinstance(mv2, MultiVector)):
        mv2 = mv2()
    if isinstance(mv2, (tuple, list)):
        return type(mv2)((self._call_binary(mv1, mv) for mv in mv2))
    if isinstance(mv1, (tuple, list)):
        return type(mv1)((self._call_binary(mv, mv2) for mv in mv1))
    mv1 = mv1 if isinstance(mv1, MultiVector) else MultiVector.fromkeysvalues(self.algebra, (0,), [mv1])
    mv2 = mv2 if isinstance(mv2, MultiVector) else MultiVector.fromkeysvalues(self.algebra, (0,), [mv2])
    if not (mv1.algebra is mv2.algebra or mv1.algebra == mv2.algebra):
        raise AlgebraError(""Cannot multiply elements of different algebra's."")
    keys_out, func = self[mv1.keys(), mv2.keys()]
    issymbolic = mv1.issymbolic or mv2.issymbolic
    if issymbolic or not mv1.algebra.wrapper:
        values_out = func(mv1.values(), mv2.values())
    else:
        values_out = self.algebra.numspace[func.__name__](mv1.values(), mv2.values())
    if issymbolic and self.algebra.simp_func:
        keys_out, values_out = self.filter(keys_out, values_out)
    return MultiVector.fromkeysvalues(self.algebra, keys=keys_out, values=values_out)");
  ("UnaryOperatorDict.__call__", "def __call__(self, mv):
    keys_out, func = self[mv.keys()]
    issymbolic = mv.issymbolic
    if issymbolic or not mv.algebra.wrapper:
        values_out = func(mv.values())
    else:
        values_out = self.algebra.numspace[func.__name__](mv.values())
    if issymbolic and self.algebra.simp_func:
        keys_out, values_out = self.filter(keys_out, values_out)
    return MultiVector.fromkeysvalues(self.algebra, keys=keys_out, values=values_out)");
  ("Registry.__getitem__", "def __getitem__(self, keys_in: Tuple[Tuple[int]]):
    if keys_in not in self.operator_dict:
        tapes = [TapeRecorder(algebra=self.algebra, expr=name, keys=keys) for name, keys in zip(string.ascii_lowercase, keys_in)]
        keys_out, func = do_compile(self.codegen, *tapes)
        self._store(keys_in, keys_out, func)
    return self.operator_dict[keys_in]");
  ("Registry.__call__", "def __call__(self, *mvs):
    mvs = list(mvs)
    for i in range(len(mvs)):
        mv = mvs[i]
        while isinstance(mv, Callable) and (not isinstance(mv, MultiVector)):
            mv = mv()
        mvs[i] = mv
    if any((isinstance(mv, TapeRecorder) for mv in mvs)):
        mvs = [mv if isinstance(mv, TapeRecorder) else TapeRecorder(self.algebra, expr=f'({mv},)', keys=(0,)) for mv in mvs]
        keys_in = tuple((mv.keys() for mv in mvs))
        keys_out, func = self[keys_in]
        expr = f'{func.__name__}({', '.join((mv.expr for mv in mvs))})'
        return TapeRecorder(self.algebra, keys=keys_out, expr=expr)
    mvs = [mv if isinstance(mv, MultiVector) else MultiVector.fromkeysvalues(self.algebra, (0,), (mv,)) for mv in mvs]
    if any((mvs[0].algebra != mv.algebra for mv in mvs[1:])):
        raise AlgebraError(""Cannot multiply elements of different algebra's."")
    keys_in = tuple((mv.keys() for mv in mvs))
    values_in = tuple((mv.values() for mv in mvs))
    keys_out, func = self[keys_in]
    if not mvs[0].algebra.wrapper:
        values_out = func(*values_in)
    else:
        values_out = self.algebra.numspace[func.__name__](*values_in)
    return MultiVector.fromkeysvalues(self.algebra, keys=keys_out, values=values_out)");
  ("OperatorDict._store", "def _store(self, keys_in, keys_out, func):
    wrapped = self.algebra.wrapper(func) if self.algebra.wrapper else func
    while self.algebra.numspace.setdefault(func.__name__, wrapped) is not wrapped:
        func.__name__ += '_'
    self.operator_dict[keys_in] = (keys_out, func)");
  ("do_compile", "def do_compile(codegen, *tapes):
    algebra = tapes[0].algebra
    namespace = algebra.numspace
    res = codegen(*tapes)
    funcname = f'{_identifier(codegen.__name__)}_' + '_x_'.join((f'{tape.type_number}' for tape in tapes))
    funcstr = f'def {funcname}({', '.join((t.expr for t in tapes))}):'
    if not isinstance(res, str):
        funcstr += f'    return {res.expr}'
    else:
        funcstr += f'    return ({res},)'
    funclocals = {}
    filename = f'<{funcname}>'
    c = compile(funcstr, filename, 'exec')
    exec(c, namespace, funclocals)
    linecache.cache[filename] = (len(funcstr), None, funcstr.splitlines(True), filename)
    func = funclocals[funcname]
    return CodegenOutput(res.keys() if not isinstance(res, str) else (0,), func)")
].
Lemma glue_defs_pinned : glue_defs = pinned_glue_defs.
Proof. reflexivity. Qed.
Definition pinned_tape_names : list string := ["__new__"; "keys"; "type_number"; "__getattr__"; "grade"; "__str__"; "__bool__"; "binary_operator"; "unary_operator"; "gp"; "__mul__"; "sw"; "__rshift__"; "cp"; "acp"; "ip"; "__or__"; "sp"; "lc"; "rc"; "op"; "__xor__"; "rp"; "__and__"; "proj"; "__matmul__"; "add"; "__add__"; "__radd__"; "sub"; "__sub__"; "__rsub__"; "__rmul__"; "__rxor__"; "__truediv__"; "div"; "__pow__"; "inv"; "neg"; "__neg__"; "reverse"; "__invert__"; "involute"; "conjugate"; "sqrt"; "polarity"; "unpolarity"; "hodge"; "unhodge"; "normsq"; "outerexp"; "outersin"; "outercos"; "outertan"; "dual"; "undual"; "norm"; "normalized"].
Lemma tape_names_pinned : tape_names = pinned_tape_names.
Proof. reflexivity. Qed.
