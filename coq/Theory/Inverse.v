(* Theory/Inverse.v — C07: what the model of kingdon's inverse and division (Model/Inverse.v) satisfies
   in EVERY algebra under the sign-table hypotheses (any dimension, signature, basis) and over EVERY
   commutative ring, for sparse operands in any key order:

     filter_ok            the hypothesis on OperatorDict.filter (F): it keeps well-formedness and the
                          element ( F z == z ).  Satisfied by the identity (numeric path) and by
                          filter_nz for any zero test that is only true on 0 (filter_nz_ok).
     inv_sound            x num = den, num x = den (scalars), den e = 1  ==>  (e num) is a two-sided
                          inverse of x;  inverse_unique' : two-sided inverses are unique.
     inv_model_ok         unfolding of codegen_inv: the returned value is (1/den) num, an error is
                          ZeroDivisionError exactly when the denominator tests zero (zde_iff), and the
                          generators themselves never raise ZeroDivisionError (inv_numden_no_zde).
     inv_model_sound      hence: if the numerator/denominator pair satisfies the two scalar equations
                          and (1/den) den = 1, whatever inv_model returns is a two-sided inverse.
     div_spec, rdiv_spec  a / b = a * b.inv(), number / x = number * x.inv()  (same errors).
     power_supply_correct every `next(supply)` is x^k for the requested k, for ANY table of chains
                          whose entries split k into two smaller requested powers.
     shirokov_sound_partial   for every dimension: whenever the Shirokov loop stops by its `break`
                          (xi has only the scalar key), x adj = adj x = xi.e  — the algebraic part of
                          the iterative scheme.  NOT proved: that the break is always reached within
                          n = 2^ceil(d/2) rounds (Shirokov's theorem, a Cayley-Hamilton statement),
                          hence the suffix _partial.

   The closed forms for d <= 4 (the two scalar equations for all operands) are in Theory/Hitzer.v.
   Custom bases: all statements here are for an arbitrary algebra under [sign_hyps], so they hold
   for custom bases as they stand; the d <= 4 closed-form identities of Theory/Hitzer.v are proved for
   ascending spellings and transfer to other spellings by the C14 relabelling isomorphism
   (Theory/Relabel.v), which is not composed here. *)
From Coq Require Import List ZArith Bool Ring Lia Permutation RelationClasses QArith Qcanon.
From KV Require Import Model.All Model.Inverse Theory.WF Theory.Bits Theory.Sparse Theory.Product Theory.Ops
  Theory.OpsWF Theory.Algebra Theory.Natural.
Import ListNotations.

Lemma bind_Ok {X Y} (e : res X) (f : X -> res Y) y :
  bind e f = Ok y <-> exists a, e = Ok a /\ f a = Ok y.
Proof.
  destruct e as [a|er]; cbn [bind].
  - split; [intros H; exists a; auto | intros (b & E & H); inversion E; subst; exact H].
  - split; [discriminate | intros (b & E & _); discriminate].
Qed.

Lemma bind_Err {X Y} (e : res X) (f : X -> res Y) er :
  bind e f = Err er <-> e = Err er \/ exists a, e = Ok a /\ f a = Err er.
Proof.
  destruct e as [a|er']; cbn [bind].
  - split; [intros H; right; exists a; auto | intros [E|(b & E & H)]; [discriminate | inversion E; subst; exact H]].
  - split; [intros H; left; inversion H; reflexivity | intros [E|(b & E & _)]; [inversion E; reflexivity | discriminate]].
Qed.

Lemma of_opt_Err {X} e (o : option X) er : of_opt e o = Err er -> er = e.
Proof. destruct o; cbn [of_opt]; intros H; inversion H; reflexivity. Qed.

Section Inverse.
  Variable R : Type.
  Variables (rO rI : R) (radd rmul rsub : R -> R -> R) (ropp : R -> R).
  Hypothesis Rth : ring_theory rO rI radd rmul rsub ropp (@eq R).
  Add Ring Rring : Rth.
  Local Notation O := (mkOps R radd rsub rmul ropp rO rI).
  Local Notation "a + b" := (radd a b) : kvr_scope.
  Local Notation "a * b" := (rmul a b) : kvr_scope.
  Local Notation "a - b" := (rsub a b) : kvr_scope.
  Local Notation "- a" := (ropp a) : kvr_scope.
  Local Notation equiv := (Sparse.equiv rO rI radd rmul rsub ropp).
  Local Infix "==" := equiv (at level 70, no associativity).
  Local Notation RT l := (l R rO rI radd rmul rsub ropp Rth) (only parsing).
  Local Notation RN l := (l R rO rI radd rmul rsub ropp) (only parsing).
  Local Open Scope Z_scope.

  Variable A : alg.
  Local Notation L := (alg_len A).
  Local Notation wf := (@wfmv R A).
  Local Notation cf K x := (coeff O K x).
  Local Notation scal := (Algebra.scal rmul).
  Local Notation one := (Algebra.one rI).
  Hypothesis SH : sign_hyps A.
  Local Notation AT l := (l R rO rI radd rmul rsub ropp Rth A SH) (only parsing).
  Local Notation AN l := (l R rO rI radd rmul rsub ropp A SH) (only parsing).

  Local Instance equiv_Equiv : Equivalence equiv := RN equiv_Equivalence.

  (* the coefficient structure of the model: division, zero test, filter *)
  Variable dv : R -> R -> R.
  Variable isz : R -> bool.
  Variable F : mv R -> mv R.

  (* OperatorDict.filter changes neither the element nor well-formedness *)
  Definition filter_ok : Prop := forall z, wf z -> wf (F z) /\ F z == z.
  Hypothesis HF : filter_ok.

  Local Notation imul := (i_mul O F A).
  Local Notation isub := (i_sub O F A).

  Lemma wf_F z : wf z -> wf (F z). Proof. intros H. apply (HF z H). Qed.
  Lemma eq_F z : wf z -> F z == z. Proof. intros H. apply (HF z H). Qed.

  Lemma wf_gp x y : wf (gp O A x y). Proof. apply (AN wfmv_gp). Qed.
  Lemma wf_sub x y : wf (sub O A x y). Proof. apply (AN wfmv_sub). Qed.
  Lemma wf_cs (z : mv R) : wf (canon_sort A z).
  Proof. exact (wfmv_canon_sort R A (sh_keys A SH) (sh_nodup A SH) z). Qed.

  Lemma wf_imul x y : wf (imul x y). Proof. apply wf_F, wf_gp. Qed.
  Lemma eq_imul x y : imul x y == gp O A x y. Proof. apply eq_F, wf_gp. Qed.
  Lemma wf_isub x y : wf (isub x y). Proof. apply wf_F, wf_sub. Qed.
  Lemma eq_isub x y : isub x y == sub O A x y. Proof. apply eq_F, wf_sub. Qed.
  Lemma wf_irev x : wf (i_rev O F A x). Proof. apply wf_F, wf_cs. Qed.
  Lemma eq_irev x : i_rev O F A x == reverse O A x. Proof. apply eq_F, wf_cs. Qed.
  Lemma wf_iconj x : wf (i_conj O F A x). Proof. apply wf_F, wf_cs. Qed.
  Lemma eq_iconj x : i_conj O F A x == conjugate O A x. Proof. apply eq_F, wf_cs. Qed.
  Lemma wf_iinvo x : wf (i_invo O F A x). Proof. apply wf_F, wf_cs. Qed.
  Lemma eq_iinvo x : i_invo O F A x == involute O A x. Proof. apply eq_F, wf_cs. Qed.
  Lemma wf_isp x y : wf (i_sp O F A x y). Proof. apply wf_F, wf_cs. Qed.
  Lemma eq_isp x y : i_sp O F A x y == sp O A x y. Proof. apply eq_F, wf_cs. Qed.
  Lemma wf_scalar c : wf (scalar_mv c). Proof. apply wfmv_scalar. Qed.
  Lemma wf_blade_e : wf (blade_e O). Proof. apply wfmv_scalar. Qed.
  Lemma wf_one : wf one. Proof. apply wfmv_one. Qed.
  Lemma wf_scal c x : wf x -> wf (scal c x). Proof. apply wfmv_scal. Qed.

  (* congruences of gp in the form used below *)
  Lemma gp_cl x x' y : wf x -> wf x' -> wf y -> x == x' -> gp O A x y == gp O A x' y.
  Proof. apply gp_congr_l; exact Rth. Qed.
  Lemma gp_cr x y y' : wf x -> wf y -> wf y' -> y == y' -> gp O A x y == gp O A x y'.
  Proof. apply gp_congr_r; exact Rth. Qed.

  (* ================= 1. soundness of "numerator over scalar denominator" ================= *)

  Theorem inv_sound x num den e : wf x -> wf num ->
    gp O A x num == scal den one -> gp O A num x == scal den one -> (den * e)%r = rI ->
    gp O A x (scal e num) == one /\ gp O A (scal e num) x == one.
  Proof.
    intros Hx Hn H1 H2 He. split.
    - apply (AT inv_from_scalar_r x num den e); assumption.
    - apply (AT inv_from_scalar_l x num den e); assumption.
  Qed.

  Theorem inverse_unique' x y z : wf x -> wf y -> wf z ->
    gp O A x y == one -> gp O A z x == one -> y == z.
  Proof. apply (AT inverse_unique). Qed.

  (* any two two-sided inverses coincide *)
  Corollary two_sided_unique x y z : wf x -> wf y -> wf z ->
    gp O A x y == one -> gp O A y x == one -> gp O A x z == one -> gp O A z x == one -> y == z.
  Proof. intros Hx Hy Hz H1 _ _ H4. apply (inverse_unique' x y z); assumption. Qed.

  (* ================= 2. the generators never raise ZeroDivisionError ================= *)

  Lemma grade_sel_no_zde grades (x : mv R) : grade_sel O A grades x <> Err EZeroDiv.
  Proof.
    unfold grade_sel. intros H. apply bind_Err in H. destruct H as [H|(a & _ & H)]; [|discriminate].
    unfold indices_for_grades in H. destruct (_ && _); discriminate.
  Qed.

  Lemma hitzer_no_zde x : hitzer O F A x <> Err EZeroDiv.
  Proof.
    unfold hitzer. intros H. apply bind_Err in H. destruct H as [H|(a & _ & H)]; [|discriminate].
    unfold hitzer_num in H.
    destruct (a_d A) as [|[|[|[|[|[|n]]]]]]; try discriminate;
      apply bind_Err in H; destruct H as [H|(a & _ & H)]; try discriminate;
      exact (grade_sel_no_zde _ _ H).
  Qed.

  Lemma minimal_chains_loop_err fuel limit chains er :
    minimal_chains_loop fuel limit chains = Err er -> er = EFuel.
  Proof.
    revert chains. induction fuel as [|f IH]; intros chains; cbn [minimal_chains_loop];
      destruct (chains_missing limit chains); try discriminate.
    - intros H. inversion H. reflexivity.
    - apply IH.
  Qed.

  Lemma supply_next_err chains pw step er :
    supply_next O F A chains pw step = Err er -> er = EKey \/ er = EIndex.
  Proof.
    unfold supply_next. destruct (zassoc step pw); [discriminate|].
    intros H.
    apply bind_Err in H. destruct H as [H|(c1 & _ & H)]; [left; exact (of_opt_Err _ _ _ H)|].
    apply bind_Err in H. destruct H as [H|(c2 & _ & H)]; [right; exact (of_opt_Err _ _ _ H)|].
    apply bind_Err in H. destruct H as [H|(c3 & _ & H)]; [left; exact (of_opt_Err _ _ _ H)|].
    apply bind_Err in H. destruct H as [H|(c4 & _ & H)]; [left; exact (of_opt_Err _ _ _ H)|].
    discriminate.
  Qed.

  Lemma shirokov_loop_err chains n is : forall pw powers cs xs cur er,
    shirokov_loop O dv isz F A chains n is pw powers cs xs cur = Err er -> er = EKey \/ er = EIndex.
  Proof.
    induction is as [|i is IH]; intros pw powers cs xs cur er; cbn [shirokov_loop]; [discriminate|].
    intros H. apply bind_Err in H. destruct H as [H|([pw' p] & _ & H)].
    - exact (supply_next_err _ _ _ _ H).
    - cbv beta iota zeta in H. destruct (grades_is_0 _); [discriminate|]. exact (IH _ _ _ _ _ _ H).
  Qed.

  Lemma shirokov_no_zde x : shirokov O dv isz F A x <> Err EZeroDiv.
  Proof.
    unfold shirokov, shirokov_run. intros H.
    apply bind_Err in H. destruct H as [H|([[[i xi] xs] cs] & _ & H)]; [|discriminate].
    apply bind_Err in H. destruct H as [H|(chains & _ & H)].
    - apply minimal_chains_loop_err in H. discriminate.
    - apply shirokov_loop_err in H. destruct H; discriminate.
  Qed.

  Theorem inv_numden_no_zde y : inv_numden O dv isz F A y <> Err EZeroDiv.
  Proof.
    unfold inv_numden. destruct (Nat.ltb (a_d A) 6); [apply hitzer_no_zde | apply shirokov_no_zde].
  Qed.

  (* ================= 3. codegen_inv / codegen_div unfolded ================= *)

  (* ZeroDivisionError is raised exactly when the generated denominator tests zero *)
  Theorem zde_iff y :
    inv_model O dv isz F A y = Err EZeroDiv
    <-> exists num den, inv_numden O dv isz F A y = Ok (num, den) /\ isz den = true.
  Proof.
    unfold inv_model. split.
    - intros H. apply bind_Err in H. destruct H as [H|([num den] & E & H)].
      + exfalso. exact (inv_numden_no_zde y H).
      + exists num, den. split; [exact E|]. cbv beta iota zeta in H.
        destruct (isz den); [reflexivity | discriminate].
    - intros (num & den & E & Hz). rewrite E. cbn [bind]. rewrite Hz. reflexivity.
  Qed.

  (* every other error of alg.inv comes from the generator *)
  Theorem inv_model_err y er : er <> EZeroDiv ->
    (inv_model O dv isz F A y = Err er <-> inv_numden O dv isz F A y = Err er).
  Proof.
    intros Hne. unfold inv_model. split.
    - intros H. apply bind_Err in H. destruct H as [H|([num den] & E & H)]; [exact H|].
      cbv beta iota zeta in H. destruct (isz den); [|discriminate].
      inversion H. subst er. exfalso. apply Hne. reflexivity.
    - intros E. rewrite E. reflexivity.
  Qed.

  (* a returned value is the numerator times the inverse of the denominator *)
  Theorem inv_model_ok y r :
    inv_model O dv isz F A y = Ok r
    <-> exists num den, inv_numden O dv isz F A y = Ok (num, den) /\ isz den = false
                        /\ r = imul num (scalar_mv (dv rI den)).
  Proof.
    unfold inv_model. split.
    - intros H. apply bind_Ok in H. destruct H as ([num den] & E & H). cbv beta iota zeta in H.
      exists num, den. destruct (isz den); [discriminate|]. inversion H. auto.
    - intros (num & den & E & Hz & ->). rewrite E. cbn [bind]. rewrite Hz. reflexivity.
  Qed.

  Lemma imul_scalar num e : wf num -> imul num (scalar_mv e) == scal e num.
  Proof.
    intros Hn. transitivity (gp O A num (scalar_mv e)); [apply eq_imul|].
    apply (AT gp_scalar_r). exact Hn.
  Qed.

  (* the well-formedness of what the generators return *)
  Lemma hitzer_num_wf x num : hitzer_num O F A x = Ok num -> wf num.
  Proof.
    unfold hitzer_num.
    destruct (a_d A) as [|[|[|[|[|[|n]]]]]]; try discriminate; intros H.
    - inversion H. apply wf_blade_e.
    - inversion H. apply wf_iinvo.
    - inversion H. apply wf_iconj.
    - inversion H. apply wf_imul.
    - apply bind_Ok in H. destruct H as (g & _ & H). inversion H. apply wf_imul.
    - apply bind_Ok in H. destruct H as (g & _ & H). inversion H. apply wf_imul.
  Qed.

  Lemma shirokov_wf x adj den : shirokov O dv isz F A x = Ok (adj, den) -> wf adj.
  Proof.
    unfold shirokov. intros H. apply bind_Ok in H. destruct H as ([[[i xi] xs] cs] & _ & H).
    cbv beta iota zeta in H. inversion H. unfold shirokov_adj.
    destruct (Nat.eqb i 1); [apply wf_blade_e | apply wf_isub].
  Qed.

  Theorem inv_numden_wf y num den : inv_numden O dv isz F A y = Ok (num, den) -> wf num.
  Proof.
    unfold inv_numden. destruct (Nat.ltb (a_d A) 6).
    - unfold hitzer. intros H. apply bind_Ok in H. destruct H as (n & E & H). inversion H. subst.
      exact (hitzer_num_wf _ _ E).
    - apply shirokov_wf.
  Qed.

  Theorem inv_model_wf y r : inv_model O dv isz F A y = Ok r -> wf r.
  Proof. intros H. apply inv_model_ok in H. destruct H as (num & den & _ & _ & ->). apply wf_imul. Qed.

  (* what alg.inv returns is a two-sided inverse as soon as the numerator/denominator pair satisfies
     the two scalar equations and the coefficient division inverts the denominator *)
  Theorem inv_model_sound y num den r : wf y ->
    inv_numden O dv isz F A y = Ok (num, den) ->
    gp O A y num == scal den one -> gp O A num y == scal den one ->
    (den * dv rI den)%r = rI ->
    inv_model O dv isz F A y = Ok r ->
    gp O A y r == one /\ gp O A r y == one.
  Proof.
    intros Hy E H1 H2 He Hr.
    pose proof (inv_numden_wf _ _ _ E) as Hn.
    apply inv_model_ok in Hr. destruct Hr as (num' & den' & E' & _ & ->).
    rewrite E in E'. inversion E'. subst num' den'.
    destruct (inv_sound y num den (dv rI den) Hy Hn H1 H2 He) as [G1 G2].
    pose proof (imul_scalar num (dv rI den) Hn) as Hs.
    split.
    - transitivity (gp O A y (scal (dv rI den) num)); [|exact G1].
      apply gp_cr; [exact Hy | apply wf_imul | apply wf_scal; exact Hn | exact Hs].
    - transitivity (gp O A (scal (dv rI den) num) y); [|exact G2].
      apply gp_cl; [apply wf_imul | apply wf_scal; exact Hn | exact Hy | exact Hs].
  Qed.

  (* a / b = a * b.inv(): same error, or the product with the value alg.inv returns *)
  Theorem div_spec x y : wf x ->
    match div_model O dv isz F A x y, inv_model O dv isz F A y with
    | Ok r, Ok yi => r == gp O A x yi
    | Err e1, Err e2 => e1 = e2
    | _, _ => False
    end.
  Proof.
    intros Hx. unfold div_model, inv_model.
    destruct (inv_numden O dv isz F A y) as [[num den]|er] eqn:E; cbn [bind]; [|reflexivity].
    cbv beta iota zeta. destruct (isz den); [reflexivity|].
    pose proof (inv_numden_wf _ _ _ E) as Hn.
    set (e := dv rI den).
    transitivity (scal e (imul x num)); [apply imul_scalar; apply wf_imul|].
    transitivity (scal e (gp O A x num)); [apply (scal_congr R rO rI radd rmul rsub ropp Rth); apply eq_imul|].
    transitivity (gp O A x (scal e num)); [symmetry; apply (AT gp_scal_r); assumption|].
    apply gp_cr; [exact Hx | apply wf_scal; exact Hn | apply wf_imul | symmetry; apply imul_scalar; exact Hn].
  Qed.

  (* number / x = number * x.inv() *)
  Theorem rdiv_spec c x :
    match rdiv_number O dv isz F A c x, inv_model O dv isz F A x with
    | Ok r, Ok xi => r == scal c xi /\ r == gp O A (scalar_mv c) xi
    | Err e1, Err e2 => e1 = e2
    | _, _ => False
    end.
  Proof.
    unfold rdiv_number. pose proof (div_spec (scalar_mv c) x (wf_scalar c)) as H.
    destruct (div_model O dv isz F A (scalar_mv c) x) as [r|e1];
      destruct (inv_model O dv isz F A x) as [xi|e2] eqn:E; try exact H.
    split; [|exact H]. transitivity (gp O A (scalar_mv c) xi); [exact H|].
    apply (AT gp_scalar_l). exact (inv_model_wf _ _ E).
  Qed.

  (* x ** -1 is x.inv(); x ** 0 is the scalar 1 *)
  Theorem pow_model_m1 x : pow_model O dv isz F A x (-1) = inv_model O dv isz F A x.
  Proof.
    unfold pow_model. cbn [Z.eqb Z.ltb Z.compare Z.opp Z.to_nat Pos.to_nat Pos.iter_op Nat.sub seq fold_left].
    destruct (inv_model O dv isz F A x); reflexivity.
  Qed.
  Theorem pow_model_0 x : pow_model O dv isz F A x 0 = Ok (blade_e O).
  Proof. reflexivity. Qed.

End Inverse.

Arguments filter_ok {R} rO rI radd rmul rsub ropp A F.

(* ================= the filter hypothesis holds for the two filters kingdon uses ================= *)
Section Filters.
  Variable R : Type.
  Variables (rO rI : R) (radd rmul rsub : R -> R -> R) (ropp : R -> R).
  Local Notation O := (mkOps R radd rsub rmul ropp rO rI).
  Local Notation equiv := (Sparse.equiv rO rI radd rmul rsub ropp).
  Variable A : alg.

  (* numeric path: nothing is dropped *)
  Lemma filter_ok_id : filter_ok rO rI radd rmul rsub ropp A (fun z => z).
  Proof. intros z Hz. split; [exact Hz | intros K; reflexivity]. Qed.

  (* symbolic path: coefficients testing zero are dropped; the test is only true on 0 *)
  Lemma filter_ok_nz (isz : R -> bool) : (forall r, isz r = true -> r = rO) ->
    filter_ok rO rI radd rmul rsub ropp A (filter_nz isz).
  Proof.
    intros Hz z [Hnd Hr]. split.
    - split; [apply NoDup_keys_filter_nz; exact Hnd|].
      intros k Hk. apply Hr. apply (keys_filter_nz_incl isz z). exact Hk.
    - clear Hr. intros K. induction z as [|[k v] z IH]; [reflexivity|].
      cbn [keys map fst] in Hnd. inversion Hnd as [|? ? Hk Hnd']; subst. specialize (IH Hnd').
      unfold filter_nz in *. cbn [filter snd]. destruct (isz v) eqn:E; cbn [negb].
      + rewrite IH. cbn [coeff]. destruct (Z.eqb k K) eqn:EK; [|reflexivity].
        apply Z.eqb_eq in EK. subst K. rewrite (Hz v E).
        apply (coeff_notin R rO rI radd rmul rsub ropp). exact Hk.
      + cbn [coeff]. destruct (Z.eqb k K); [reflexivity | exact IH].
  Qed.
End Filters.

(* ================= power_supply and the Shirokov scheme ================= *)
Lemma zassoc_zset {V} k s (v : V) pw : zassoc k (zset s v pw) = if Z.eqb s k then Some v else zassoc k pw.
Proof.
  induction pw as [|[k' v'] pw IH]; cbn [zset zassoc].
  - reflexivity.
  - destruct (Z.eqb k' s) eqn:E1; cbn [zassoc].
    + apply Z.eqb_eq in E1. subst k'. destruct (Z.eqb s k); reflexivity.
    + destruct (Z.eqb k' k) eqn:E2.
      * apply Z.eqb_eq in E2. subst k'. rewrite Z.eqb_sym, E1. reflexivity.
      * exact IH.
Qed.

Section Powers.
  Variable R : Type.
  Variables (rO rI : R) (radd rmul rsub : R -> R -> R) (ropp : R -> R).
  Hypothesis Rth : ring_theory rO rI radd rmul rsub ropp (@eq R).
  Add Ring Rring3 : Rth.
  Local Notation O := (mkOps R radd rsub rmul ropp rO rI).
  Local Notation "a * b" := (rmul a b) : kvr_scope.
  Local Notation equiv := (Sparse.equiv rO rI radd rmul rsub ropp).
  Local Infix "==" := equiv (at level 70, no associativity).
  Local Open Scope Z_scope.

  Variable A : alg.
  Local Notation L := (alg_len A).
  Local Notation wf := (@wfmv R A).
  Local Notation cf K x := (coeff O K x).
  Local Notation scal := (Algebra.scal rmul).
  Local Notation one := (Algebra.one rI).
  Hypothesis SH : sign_hyps A.
  Local Instance equiv_Equiv3 : Equivalence equiv := equiv_Equivalence R rO rI radd rmul rsub ropp.

  Variable dv : R -> R -> R.
  Variable isz : R -> bool.
  Variable F : mv R -> mv R.
  Hypothesis HF : filter_ok rO rI radd rmul rsub ropp A F.

  Local Notation GP := (gp O A).
  Local Notation SUB := (sub O A).
  Local Notation imul := (i_mul O F A).
  Local Notation isub := (i_sub O F A).
  Local Notation wfgp := (wfmv_gp R rO rI radd rmul rsub ropp A SH).
  Local Notation wfsub := (wfmv_sub R rO rI radd rmul rsub ropp A SH).
  Local Notation gpc := (gp_congr R rO rI radd rmul rsub ropp Rth A).
  Local Notation subc := (sub_congr R rO rI radd rmul rsub ropp Rth A).
  Local Notation gpa := (gp_assoc R rO rI radd rmul rsub ropp Rth A SH).

  Lemma wf_imul' a b : wf (imul a b). Proof. apply (HF _ (wfgp a b)). Qed.
  Lemma eq_imul' a b : imul a b == GP a b. Proof. apply (HF _ (wfgp a b)). Qed.
  Lemma wf_isub' a b : wf (isub a b). Proof. apply (HF _ (wfsub a b)). Qed.
  Lemma eq_isub' a b : isub a b == SUB a b. Proof. apply (HF _ (wfsub a b)). Qed.

  Variable x : mv R.
  Hypothesis Hx : wf x.

  (* x^(n+1), left-nested *)
  Fixpoint xpow (n : nat) : mv R :=
    match n with 0%nat => x | S k => GP (xpow k) x end.
  (* x^e for e >= 1 *)
  Definition xe (e : nat) : mv R := xpow (e - 1).
  Definition xp (k : Z) : mv R := xe (Z.to_nat k).

  Lemma wf_xpow n : wf (xpow n).
  Proof. destruct n; [exact Hx | apply wfgp]. Qed.
  Lemma wf_xe e : wf (xe e). Proof. apply wf_xpow. Qed.

  Lemma xpow_add a b : GP (xpow a) (xpow b) == xpow (a + b + 1).
  Proof.
    induction b as [|b IH].
    - replace (a + 0 + 1)%nat with (S a) by lia. reflexivity.
    - replace (a + S b + 1)%nat with (S (a + b + 1)) by lia. cbn [xpow].
      transitivity (GP (GP (xpow a) (xpow b)) x).
      + symmetry. apply gpa; [apply wf_xpow | apply wf_xpow | exact Hx].
      + apply gpc; [apply wfgp | apply wf_xpow | exact Hx | exact Hx | exact IH | reflexivity].
  Qed.

  Lemma xe_add a b : (1 <= a)%nat -> (1 <= b)%nat -> GP (xe a) (xe b) == xe (a + b).
  Proof.
    intros Ha Hb. unfold xe. rewrite xpow_add. replace (a - 1 + (b - 1) + 1)%nat with (a + b - 1)%nat by lia.
    reflexivity.
  Qed.
  Lemma xe_1 : xe 1 = x. Proof. reflexivity. Qed.
  Lemma x_xe e : (1 <= e)%nat -> GP x (xe e) == xe (S e).
  Proof. intros He. transitivity (GP (xe 1) (xe e)); [reflexivity|]. rewrite (xe_add 1 e) by lia. reflexivity. Qed.
  Lemma xe_x e : (1 <= e)%nat -> GP (xe e) x == xe (S e).
  Proof.
    intros He. transitivity (GP (xe e) (xe 1)); [reflexivity|]. rewrite (xe_add e 1) by lia.
    replace (e + 1)%nat with (S e) by lia. reflexivity.
  Qed.

  (* ---------- power_supply ---------- *)
  (* the dictionary of powers only ever holds powers of x under their exponent *)
  Definition PW (pw : list (Z * mv R)) : Prop :=
    forall k v, zassoc k pw = Some v -> 1 <= k /\ wf v /\ v == xp k.

  Lemma PW_init : PW [(1, x)].
  Proof.
    intros k v. cbn [zassoc]. destruct (Z.eqb 1 k) eqn:E; [|discriminate].
    apply Z.eqb_eq in E. subst k. intros H. inversion H. subst v.
    split; [lia|]. split; [exact Hx | reflexivity].
  Qed.

  (* one `next(supply)`: for ANY table of chains, a returned value is x^step *)
  Theorem supply_next_correct chains pw step pw' v : PW pw ->
    supply_next O F A chains pw step = Ok (pw', v) ->
    PW pw' /\ 1 <= step /\ wf v /\ v == xp step /\ zassoc step pw' = Some v.
  Proof.
    intros Hpw. unfold supply_next. destruct (zassoc step pw) as [v0|] eqn:E.
    - intros H. inversion H. subst pw' v. destruct (Hpw step v0 E) as (H1 & H2 & H3). auto.
    - intros H.
      apply bind_Ok in H. destruct H as (chain & _ & H).
      apply bind_Ok in H. destruct H as (c & _ & H).
      apply bind_Ok in H. destruct H as (a & Ea & H).
      apply bind_Ok in H. destruct H as (b & Eb & H).
      inversion H. subst pw' v. clear H.
      destruct (zassoc c pw) as [a'|] eqn:Eca; [|discriminate]. inversion Ea. subst a'.
      destruct (zassoc (step - c) pw) as [b'|] eqn:Ecb; [|discriminate]. inversion Eb. subst b'.
      destruct (Hpw c a Eca) as (Hc1 & Wa & Ha). destruct (Hpw _ b Ecb) as (Hc2 & Wb & Hb).
      assert (Hv : imul a b == xp step).
      { transitivity (GP a b); [apply eq_imul'|].
        transitivity (GP (xp c) (xp (step - c))).
        { apply gpc; try assumption; apply wf_xe. }
        unfold xp. rewrite xe_add by lia. replace (Z.to_nat c + Z.to_nat (step - c))%nat with (Z.to_nat step) by lia.
        reflexivity. }
      split; [|split; [lia|split; [apply wf_imul'|split; [exact Hv|]]]].
      + intros k w. rewrite zassoc_zset. destruct (Z.eqb step k) eqn:Ek.
        * apply Z.eqb_eq in Ek. subst k. intros Hw. inversion Hw. subst w.
          split; [lia|]. split; [apply wf_imul' | exact Hv].
        * apply Hpw.
      + rewrite zassoc_zset, Z.eqb_refl. reflexivity.
  Qed.

  Lemma power_supply_from_correct chains exps : forall pw vs, PW pw ->
    power_supply_from O F A chains pw exps = Ok vs ->
    Forall2 (fun e v => 1 <= e /\ wf v /\ v == xp e) exps vs.
  Proof.
    induction exps as [|e exps IH]; intros pw vs Hpw; cbn [power_supply_from].
    - intros H. inversion H. constructor.
    - intros H. apply bind_Ok in H. destruct H as ([pw' v] & E & H). cbv beta iota zeta in H.
      apply bind_Ok in H. destruct H as (vs' & E' & H). inversion H. subst vs.
      destruct (supply_next_correct chains pw e pw' v Hpw E) as (Hpw' & H1 & H2 & H3 & _).
      constructor; [auto | exact (IH pw' vs' Hpw' E')].
  Qed.

  (* power_supply(x, exponents) yields x^e for every requested exponent e, whenever it yields *)
  Theorem power_supply_correct exps vs : power_supply O F A x exps = Ok vs ->
    Forall2 (fun e v => 1 <= e /\ wf v /\ v == xp e) exps vs.
  Proof.
    unfold power_supply. intros H. apply bind_Ok in H. destruct H as (chains & _ & H).
    exact (power_supply_from_correct chains exps _ vs PW_init H).
  Qed.
  (* ---------- the Shirokov loop ---------- *)
  Local Notation sc := (@scalar_mv R).
  Local Notation gsr := (gp_sub_r R rO rI radd rmul rsub ropp Rth A SH).
  Local Notation gsl := (gp_sub_l R rO rI radd rmul rsub ropp Rth A SH).
  Lemma wf_sc c : wf (sc c). Proof. apply wfmv_scalar. Qed.

  (* scalars commute with everything *)
  Lemma sc_comm c y : wf y -> GP (sc c) y == GP y (sc c).
  Proof.
    intros Hy. transitivity (Algebra.scal rmul c y).
    - apply (gp_scalar_l R rO rI radd rmul rsub ropp Rth A SH). exact Hy.
    - symmetry. apply (gp_scalar_r R rO rI radd rmul rsub ropp Rth A SH). exact Hy.
  Qed.

  (* acc - x^(k-1) c_1 - x^(k-2) c_2 - ... : the shape of xi, as a recursion over the list cs *)
  Fixpoint Exg (acc : mv R) (k : nat) (cs : list R) : mv R :=
    match cs with
    | [] => acc
    | c :: r => Exg (SUB acc (GP (xe (k - 1)) (sc c))) (k - 1) r
    end.

  Lemma wf_Exg cs : forall acc k, wf acc -> wf (Exg acc k cs).
  Proof. induction cs as [|c r IH]; intros acc k H; cbn [Exg]; [exact H | apply IH, wfsub]. Qed.

  Lemma Exg_congr cs : forall acc acc' k, wf acc -> wf acc' -> acc == acc' -> Exg acc k cs == Exg acc' k cs.
  Proof.
    induction cs as [|c r IH]; intros acc acc' k H H' E; cbn [Exg]; [exact E|].
    apply IH; try apply wfsub. apply subc; try assumption; try apply wfgp. reflexivity.
  Qed.

  Lemma Exg_snoc cs c : forall acc k,
    Exg acc k (cs ++ [c]) = SUB (Exg acc k cs) (GP (xe (k - length cs - 1)) (sc c)).
  Proof.
    induction cs as [|c0 r IH]; intros acc k; cbn [Exg app length].
    - rewrite Nat.sub_0_r. reflexivity.
    - rewrite IH. replace (k - 1 - length r - 1)%nat with (k - S (length r) - 1)%nat by lia. reflexivity.
  Qed.

  Lemma x_Exg cs : forall acc k, wf acc -> (length cs < k)%nat ->
    GP x (Exg acc k cs) == Exg (GP x acc) (S k) cs.
  Proof.
    induction cs as [|c r IH]; intros acc k Ha Hl; cbn [Exg length] in *; [reflexivity|].
    rewrite (IH _ (k - 1)%nat) by (try apply wfsub; lia).
    replace (S (k - 1)) with k by lia. replace (S k - 1)%nat with k by lia.
    apply Exg_congr; try apply wfgp; try apply wfsub.
    transitivity (SUB (GP x acc) (GP x (GP (xe (k - 1)) (sc c)))).
    { apply gsr; [exact Hx | exact Ha | apply wfgp]. }
    apply subc; try apply wfgp; [reflexivity|].
    transitivity (GP (GP x (xe (k - 1))) (sc c)).
    { symmetry. apply gpa; [exact Hx | apply wf_xe | apply wf_sc]. }
    apply gpc; try apply wfgp; try apply wf_sc; try apply wf_xe; [|reflexivity].
    rewrite (x_xe (k - 1)) by lia. replace (S (k - 1)) with k by lia. reflexivity.
  Qed.

  Lemma Exg_x cs : forall acc k, wf acc -> (length cs < k)%nat ->
    GP (Exg acc k cs) x == Exg (GP acc x) (S k) cs.
  Proof.
    induction cs as [|c r IH]; intros acc k Ha Hl; cbn [Exg length] in *; [reflexivity|].
    rewrite (IH _ (k - 1)%nat) by (try apply wfsub; lia).
    replace (S (k - 1)) with k by lia. replace (S k - 1)%nat with k by lia.
    apply Exg_congr; try apply wfgp; try apply wfsub.
    transitivity (SUB (GP acc x) (GP (GP (xe (k - 1)) (sc c)) x)).
    { apply gsl; [exact Ha | apply wfgp | exact Hx]. }
    apply subc; try apply wfgp; [reflexivity|].
    transitivity (GP (xe (k - 1)) (GP (sc c) x)).
    { apply gpa; [apply wf_xe | apply wf_sc | exact Hx]. }
    transitivity (GP (xe (k - 1)) (GP x (sc c))).
    { apply gpc; try apply wfgp; try apply wf_xe; [reflexivity | apply sc_comm; exact Hx]. }
    transitivity (GP (GP (xe (k - 1)) x) (sc c)).
    { symmetry. apply gpa; [apply wf_xe | exact Hx | apply wf_sc]. }
    apply gpc; try apply wfgp; try apply wf_sc; try apply wf_xe; [|reflexivity].
    rewrite (xe_x (k - 1)) by lia. replace (S (k - 1)) with k by lia. reflexivity.
  Qed.

  (* the list `powers` holds x^1, x^2, ... *)
  Definition Pok (P : list (mv R)) : Prop :=
    forall t, (t < length P)%nat -> wf (nth t P []) /\ nth t P [] == xe (S t).

  Definition xi_step (i : nat) (P : list (mv R)) (cs : list R) (xi : mv R) (j : nat) : mv R :=
    isub xi (imul (nth (i - j - 2)%nat P []) (sc (nth j cs rO))).

  Lemma xi_fold i P cs : length P = i -> Pok P ->
    forall suf s pre acc acc', cs = pre ++ suf -> length pre = s -> (s + length suf = i - 1)%nat ->
    wf acc -> wf acc' -> acc == acc' ->
    wf (fold_left (xi_step i P cs) (seq s (length suf)) acc)
    /\ fold_left (xi_step i P cs) (seq s (length suf)) acc == Exg acc' (i - s) suf.
  Proof.
    intros HP HPok. induction suf as [|c suf IH]; intros s pre acc acc' Hcs Hpre Hlen Wa Wa' E;
      cbn [length seq fold_left Exg].
    - split; assumption.
    - cbn [length] in Hlen.
      assert (Hnth : nth s cs rO = c).
      { rewrite Hcs, app_nth2 by lia. rewrite Hpre, Nat.sub_diag. reflexivity. }
      destruct (HPok (i - s - 2)%nat ltac:(lia)) as [Wp Ep].
      replace (S (i - s - 2)) with (i - s - 1)%nat in Ep by lia.
      assert (E1 : xi_step i P cs acc s == SUB acc' (GP (xe (i - s - 1)) (sc c))).
      { unfold xi_step. rewrite Hnth. transitivity (SUB acc (imul (nth (i - s - 2) P []) (sc c))); [apply eq_isub'|].
        apply subc; try assumption; try apply wf_imul'; try apply wfgp.
        transitivity (GP (nth (i - s - 2) P []) (sc c)); [apply eq_imul'|].
        apply gpc; try assumption; try apply wf_sc; try apply wf_xe. reflexivity. }
      assert (W1 : wf (xi_step i P cs acc s)) by apply wf_isub'.
      destruct (IH (S s) (pre ++ [c]) (xi_step i P cs acc s) (SUB acc' (GP (xe (i - s - 1)) (sc c)))) as [W2 E2];
        try assumption; try apply wfsub.
      + rewrite <- app_assoc. exact Hcs.
      + rewrite app_length. cbn [length]. lia.
      + lia.
      + split; [exact W2|]. replace (i - S s)%nat with (i - s - 1)%nat in E2 by lia. exact E2.
  Qed.

  Lemma shirokov_xi_spec i P cs p : length P = i -> Pok P -> length cs = (i - 1)%nat ->
    wf p -> p == xe i ->
    wf (shirokov_xi O F A i P cs p) /\ shirokov_xi O F A i P cs p == Exg (xe i) i cs.
  Proof.
    intros HP HPok Hc Wp Ep.
    destruct (xi_fold i P cs HP HPok cs 0%nat [] p (xe i) eq_refl eq_refl ltac:(cbn; lia) Wp (wf_xe i) Ep) as [W E].
    rewrite Nat.sub_0_r in E. unfold shirokov_xi. rewrite <- Hc. split; [exact W | exact E].
  Qed.

  (* a multivector whose stored keys all have grade 0 is its scalar part *)
  Lemma grades_is_0_scalar z : wf z -> grades_is_0 z = true -> z == Algebra.scal rmul (cf 0 z) (Algebra.one rI).
  Proof.
    intros Wz H. assert (Hk : forall k, In k (keys z) -> k = 0).
    { unfold grades_is_0 in H. destruct (keys z) as [|k0 ks] eqn:E; [discriminate|].
      rewrite forallb_forall in H. intros k Hk. apply popcount_eq_0. apply Z.eqb_eq. apply H. exact Hk. }
    intros K. rewrite (cf_scal R rO rI radd rmul rsub ropp Rth), (cf_one R rO rI radd rmul rsub ropp).
    destruct (Z.eqb K 0) eqn:EK.
    - apply Z.eqb_eq in EK. subst K. ring.
    - rewrite (coeff_notin R rO rI radd rmul rsub ropp); [ring|].
      intros HK. apply Hk in HK. subst K. discriminate.
  Qed.

  (* loop invariant at the start of round i *)
  Record Inv (i : nat) (pw : list (Z * mv R)) (powers : list (mv R)) (cs : list R) (xs : list (mv R))
         (cur : nat * mv R) : Prop := mkInv {
    inv_pw : PW pw;
    inv_plen : length powers = (i - 1)%nat;
    inv_pok : Pok powers;
    inv_clen : length cs = (i - 1)%nat;
    inv_cur : grades_is_0 (snd cur) = false;
    inv_last : (2 <= i)%nat -> exists cs0 c, cs = cs0 ++ [c] /\ wf (last xs []) /\
                                             last xs [] == Exg (xe (i - 1)) (i - 1) cs0 }.

  Definition shirokov_post (i : nat) (xi : mv R) (xs : list (mv R)) (cs : list R) : Prop :=
    wf xi /\
    ((i = 1%nat /\ xi == x) \/
     ((2 <= i)%nat /\ GP x (SUB (last xs []) (sc (last cs rO))) == xi
                  /\ GP (SUB (last xs []) (sc (last cs rO))) x == xi)).

  Lemma shirokov_loop_inv chains n m : forall i pw powers cs xs cur i' xi xs' cs',
    (1 <= i)%nat -> Inv i pw powers cs xs cur ->
    shirokov_loop O dv isz F A chains n (seq i m) pw powers cs xs cur = Ok (i', xi, xs', cs') ->
    grades_is_0 xi = true -> shirokov_post i' xi xs' cs'.
  Proof.
    induction m as [|m IH]; intros i pw powers cs xs cur i' xi xs' cs' Hi HI; cbn [seq shirokov_loop].
    - intros H Hg. inversion H. subst. rewrite (inv_cur _ _ _ _ _ _ HI) in Hg. discriminate.
    - intros H Hg. apply bind_Ok in H. destruct H as ([pw' p] & Es & H). cbv beta iota zeta in H.
      destruct (supply_next_correct chains pw (Z.of_nat i) pw' p (inv_pw _ _ _ _ _ _ HI) Es)
        as (Hpw' & _ & Wp & Ep & _).
      unfold xp in Ep. rewrite Nat2Z.id in Ep.
      set (powers' := powers ++ [p]) in *.
      assert (HPl : length powers' = i).
      { unfold powers'. rewrite app_length, (inv_plen _ _ _ _ _ _ HI). cbn [length]. lia. }
      assert (HPok : Pok powers').
      { intros t Ht. unfold powers'. destruct (Nat.lt_ge_cases t (length powers)) as [Hlt|Hge].
        - rewrite app_nth1 by exact Hlt. apply (inv_pok _ _ _ _ _ _ HI). exact Hlt.
        - rewrite app_nth2 by exact Hge. rewrite HPl in Ht.
          pose proof (inv_plen _ _ _ _ _ _ HI) as Hpl.
          replace (t - length powers)%nat with 0%nat by lia. cbn [nth].
          replace (S t) with i by lia. split; assumption. }
      assert (Hnth : nth (i - 1) powers' [] = p).
      { unfold powers'. rewrite app_nth2 by (rewrite (inv_plen _ _ _ _ _ _ HI); lia).
        rewrite (inv_plen _ _ _ _ _ _ HI), Nat.sub_diag. reflexivity. }
      rewrite Hnth in H.
      destruct (shirokov_xi_spec i powers' cs p HPl HPok (inv_clen _ _ _ _ _ _ HI) Wp Ep) as [Wxi Exi].
      set (xi0 := shirokov_xi O F A i powers' cs p) in *.
      destruct (grades_is_0 xi0) eqn:Eg.
      + (* break *)
        inversion H. subst i' xi xs' cs'. split; [exact Wxi|].
        destruct (Nat.eq_dec i 1) as [E1|N1].
        * left. split; [exact E1|].
          pose proof (inv_clen _ _ _ _ _ _ HI) as Hc. rewrite E1 in Hc, Exi.
          destruct cs as [|c0 cs]; [|cbn in Hc; lia].
          cbn [Exg] in Exi. exact Exi.
        * right. assert (H2 : (2 <= i)%nat) by lia. split; [exact H2|].
          destruct (inv_last _ _ _ _ _ _ HI H2) as (cs0 & c & Ecs & Wl & El).
          pose proof (inv_clen _ _ _ _ _ _ HI) as Hc. rewrite Ecs, app_length in Hc. cbn [length] in Hc.
          rewrite Ecs, last_last. rewrite Ecs, Exg_snoc in Exi.
          replace (i - length cs0 - 1)%nat with 1%nat in Exi by lia. rewrite xe_1 in Exi.
          set (Xl := Exg (xe (i - 1)) (i - 1) cs0) in *.
          assert (WXl : wf Xl) by (apply wf_Exg, wf_xe).
          split.
          -- transitivity (SUB (Exg (xe i) i cs0) (GP x (sc c))); [|symmetry; exact Exi].
             transitivity (SUB (GP x (last xs [])) (GP x (sc c))).
             { apply gsr; [exact Hx | exact Wl | apply wf_sc]. }
             apply subc; try apply wfgp; try apply wf_Exg; try apply wf_xe; [|reflexivity].
             transitivity (GP x Xl).
             { apply gpc; try assumption. reflexivity. }
             unfold Xl. rewrite x_Exg by (try apply wf_xe; lia).
             replace (S (i - 1)) with i by lia.
             apply Exg_congr; try apply wfgp; try apply wf_xe.
             rewrite (x_xe (i - 1)) by lia. replace (S (i - 1)) with i by lia. reflexivity.
          -- transitivity (SUB (Exg (xe i) i cs0) (GP x (sc c))); [|symmetry; exact Exi].
             transitivity (SUB (GP (last xs []) x) (GP (sc c) x)).
             { apply gsl; [exact Wl | apply wf_sc | exact Hx]. }
             apply subc; try apply wfgp; try apply wf_Exg; try apply wf_xe; [|apply sc_comm; exact Hx].
             transitivity (GP Xl x).
             { apply gpc; try assumption. reflexivity. }
             unfold Xl. rewrite Exg_x by (try apply wf_xe; lia).
             replace (S (i - 1)) with i by lia.
             apply Exg_congr; try apply wfgp; try apply wf_xe.
             rewrite (xe_x (i - 1)) by lia. replace (S (i - 1)) with i by lia. reflexivity.
      + (* next round *)
        apply (IH (S i) _ _ _ _ _ _ _ _ _ ltac:(lia)) in H; [exact H | | exact Hg].
        constructor.
        * exact Hpw'.
        * rewrite HPl. lia.
        * exact HPok.
        * rewrite app_length, (inv_clen _ _ _ _ _ _ HI). cbn [length]. lia.
        * exact Eg.
        * intros _. eexists cs, _. split; [reflexivity|]. rewrite last_last.
          replace (S i - 1)%nat with i by lia. split; [exact Wxi | exact Exi].
  Qed.

  (* C07, the iterative scheme, every dimension: whenever the loop of codegen_shirokov_inv ends on a
     purely scalar xi (its `break`), the returned pair satisfies  x adj = adj x = xi.e *)
  Theorem shirokov_sound_partial i xi xs cs :
    shirokov_run O dv isz F A x = Ok (i, xi, xs, cs) -> grades_is_0 xi = true ->
    let adj := shirokov_adj O F A i xs cs in
    let den := e_of O xi in
    shirokov O dv isz F A x = Ok (adj, den) /\
    GP x adj == Algebra.scal rmul den (Algebra.one rI) /\ GP adj x == Algebra.scal rmul den (Algebra.one rI).
  Proof.
    intros Hrun Hg adj den. split.
    { unfold shirokov. rewrite Hrun. reflexivity. }
    unfold shirokov_run in Hrun. apply bind_Ok in Hrun. destruct Hrun as (chains & _ & Hl).
    assert (HI : Inv 1 [(1, x)] [] [] [] (0%nat, [])).
    { constructor; try reflexivity; [exact PW_init | intros t Ht; cbn in Ht; lia | intros H; lia]. }
    destruct (shirokov_loop_inv chains _ _ 1%nat _ _ _ _ _ _ _ _ _ (le_n 1) HI Hl Hg) as [Wxi Hpost].
    pose proof (grades_is_0_scalar xi Wxi Hg) as Hsc. fold (e_of O xi) in Hsc. fold den in Hsc.
    unfold adj, shirokov_adj. destruct Hpost as [[E1 Exi]|(H2 & G1 & G2)].
    - subst i. cbn [Nat.eqb]. split.
      + transitivity x; [apply (gp_one_r R rO rI radd rmul rsub ropp Rth A SH); exact Hx|].
        transitivity xi; [symmetry; exact Exi | exact Hsc].
      + transitivity x; [apply (gp_one_l R rO rI radd rmul rsub ropp Rth A SH); exact Hx|].
        transitivity xi; [symmetry; exact Exi | exact Hsc].
    - destruct (Nat.eqb i 1) eqn:E; [apply Nat.eqb_eq in E; lia|].
      pose proof (eq_isub' (last xs []) (sc (last cs rO))) as Ea.
      split.
      + transitivity xi; [|exact Hsc]. transitivity (GP x (SUB (last xs []) (sc (last cs rO)))); [|exact G1].
        apply gpc; try assumption; try apply wf_isub'; try apply wfsub. reflexivity.
      + transitivity xi; [|exact Hsc]. transitivity (GP (SUB (last xs []) (sc (last cs rO))) x); [|exact G2].
        apply gpc; try assumption; try apply wf_isub'; try apply wfsub. reflexivity.
  Qed.
  (* alg.inv for d >= 6 under the same proviso *)
  Theorem inv_shirokov_sound_partial i xi xs cs r : Nat.ltb (a_d A) 6 = false ->
    shirokov_run O dv isz F A x = Ok (i, xi, xs, cs) -> grades_is_0 xi = true ->
    (forall b, isz b = false -> (b * dv rI b)%r = rI) ->
    inv_model O dv isz F A x = Ok r -> GP x r == Algebra.one rI /\ GP r x == Algebra.one rI.
  Proof.
    intros Hd Hrun Hg Hdv Hr.
    destruct (shirokov_sound_partial i xi xs cs Hrun Hg) as (E & H1 & H2).
    assert (E' : inv_numden O dv isz F A x = Ok (shirokov_adj O F A i xs cs, e_of O xi)).
    { unfold inv_numden. rewrite Hd. exact E. }
    pose proof Hr as Hr'. apply (inv_model_ok R rO rI radd rmul rsub ropp) in Hr'.
    destruct Hr' as (num' & den' & E2 & Hz & _). rewrite E' in E2. inversion E2; subst num' den'.
    exact (inv_model_sound R rO rI radd rmul rsub ropp Rth A SH dv isz F HF x _ _ r Hx E' H1 H2 (Hdv _ Hz) Hr).
  Qed.
End Powers.

(* ================= an instance: canonical fractions are a field with an exact zero test ================= *)
Lemma Qc_isz_exact : forall r, Qcisz r = true -> r = Q2Qc 0.
Proof. intros r H. apply Qc_eq_bool_correct. exact H. Qed.
Lemma Qc_div_inverts : forall b, Qcisz b = false -> Qcmult b (Qcdiv (Q2Qc 1) b) = Q2Qc 1.
Proof.
  intros b H. unfold Qcdiv. rewrite Qcmult_1_l. apply Qcmult_inv_r.
  intros E. subst b. discriminate H.
Qed.
Lemma Qc_one_neq_zero : Q2Qc 1 <> Q2Qc 0.
Proof. intros E. discriminate E. Qed.
