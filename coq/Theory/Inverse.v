(* Theory/Inverse.v — C07: what the model of kingdon's inverse and division (Model/Inverse.v) satisfies
   in EVERY algebra under the sign-table hypotheses (any dimension, signature, basis) and over EVERY
   commutative ring, for sparse operands in any key order:

     filter_ok            the hypothesis on OperatorDict.filter (F): it keeps well-formedness and the
                          element ( F z == z ).  Satisfied by the identity (numeric path) and by
                          filter_nz for any zero test that is only true on 0 (filter_nz_ok).
     inv_sound            x num = den, num x = den (scalars), den e = 1  ==>  (e num) is a two-sided
                          inverse of x;  inverse_unique' : two-sided inverses are unique.
     inv_model_ok         unfolding of codegen_inv: the returned value is (1/den) num, an error is
                          ZeroDivisionError exactly when the denominator tests zero (zde_iff), and the
                          generators themselves never raise ZeroDivisionError (inv_numden_no_zde).
     inv_model_sound      hence: if the numerator/denominator pair satisfies the two scalar equations
                          and (1/den) den = 1, whatever inv_model returns is a two-sided inverse.
     div_spec, rdiv_spec  a / b = a * b.inv(), number / x = number * x.inv()  (same errors).
     power_supply_correct every `next(supply)` is x^k for the requested k, for ANY table of chains
                          whose entries split k into two smaller requested powers.
     shirokov_sound_partial   for every dimension: whenever the Shirokov loop stops by its `break`
                          (xi has only the scalar key), x adj = adj x = xi.e  — the algebraic part of
                          the iterative scheme.  NOT proved: that the break is always reached within
                          n = 2^ceil(d/2) rounds (Shirokov's theorem, a Cayley-Hamilton statement),
                          hence the suffix _partial.

   The closed forms for d <= 3 (the two scalar equations for all operands) are in Theory/Hitzer.v.
   Custom bases: all statements here are for an arbitrary algebra under [sign_hyps], so they hold
   for custom bases as they stand; the d <= 3 closed-form identities of Theory/Hitzer.v are proved for
   ascending spellings and transfer to other spellings by the C14 relabelling isomorphism
   (Theory/Relabel.v), which is not composed here. *)
From Coq Require Import List ZArith Bool Ring Lia Permutation RelationClasses.
From KV Require Import Model.All Model.Inverse Theory.WF Theory.Sparse Theory.Product Theory.Ops
  Theory.OpsWF Theory.Algebra Theory.Natural.
Import ListNotations.

Lemma bind_Ok {X Y} (e : res X) (f : X -> res Y) y :
  bind e f = Ok y <-> exists a, e = Ok a /\ f a = Ok y.
Proof.
  destruct e as [a|er]; cbn [bind].
  - split; [intros H; exists a; auto | intros (b & E & H); inversion E; subst; exact H].
  - split; [discriminate | intros (b & E & _); discriminate].
Qed.

Lemma bind_Err {X Y} (e : res X) (f : X -> res Y) er :
  bind e f = Err er <-> e = Err er \/ exists a, e = Ok a /\ f a = Err er.
Proof.
  destruct e as [a|er']; cbn [bind].
  - split; [intros H; right; exists a; auto | intros [E|(b & E & H)]; [discriminate | inversion E; subst; exact H]].
  - split; [intros H; left; inversion H; reflexivity | intros [E|(b & E & _)]; [inversion E; reflexivity | discriminate]].
Qed.

Lemma of_opt_Err {X} e (o : option X) er : of_opt e o = Err er -> er = e.
Proof. destruct o; cbn [of_opt]; intros H; inversion H; reflexivity. Qed.

Section Inverse.
  Variable R : Type.
  Variables (rO rI : R) (radd rmul rsub : R -> R -> R) (ropp : R -> R).
  Hypothesis Rth : ring_theory rO rI radd rmul rsub ropp (@eq R).
  Add Ring Rring : Rth.
  Local Notation O := (mkOps R radd rsub rmul ropp rO rI).
  Local Notation "a + b" := (radd a b) : kvr_scope.
  Local Notation "a * b" := (rmul a b) : kvr_scope.
  Local Notation "a - b" := (rsub a b) : kvr_scope.
  Local Notation "- a" := (ropp a) : kvr_scope.
  Local Notation equiv := (Sparse.equiv rO rI radd rmul rsub ropp).
  Local Infix "==" := equiv (at level 70, no associativity).
  Local Notation RT l := (l R rO rI radd rmul rsub ropp Rth) (only parsing).
  Local Notation RN l := (l R rO rI radd rmul rsub ropp) (only parsing).
  Local Open Scope Z_scope.

  Variable A : alg.
  Local Notation L := (alg_len A).
  Local Notation wf := (@wfmv R A).
  Local Notation cf K x := (coeff O K x).
  Local Notation scal := (Algebra.scal rmul).
  Local Notation one := (Algebra.one rI).
  Hypothesis SH : sign_hyps A.
  Local Notation AT l := (l R rO rI radd rmul rsub ropp Rth A SH) (only parsing).
  Local Notation AN l := (l R rO rI radd rmul rsub ropp A SH) (only parsing).

  Local Instance equiv_Equiv : Equivalence equiv := RN equiv_Equivalence.

  (* the coefficient structure of the model: division, zero test, filter *)
  Variable dv : R -> R -> R.
  Variable isz : R -> bool.
  Variable F : mv R -> mv R.

  (* OperatorDict.filter changes neither the element nor well-formedness *)
  Definition filter_ok : Prop := forall z, wf z -> wf (F z) /\ F z == z.
  Hypothesis HF : filter_ok.

  Local Notation imul := (i_mul O F A).
  Local Notation isub := (i_sub O F A).

  Lemma wf_F z : wf z -> wf (F z). Proof. intros H. apply (HF z H). Qed.
  Lemma eq_F z : wf z -> F z == z. Proof. intros H. apply (HF z H). Qed.

  Lemma wf_gp x y : wf (gp O A x y). Proof. apply (AN wfmv_gp). Qed.
  Lemma wf_sub x y : wf (sub O A x y). Proof. apply (AN wfmv_sub). Qed.
  Lemma wf_cs (z : mv R) : wf (canon_sort A z).
  Proof. exact (wfmv_canon_sort R A (sh_keys A SH) (sh_nodup A SH) z). Qed.

  Lemma wf_imul x y : wf (imul x y). Proof. apply wf_F, wf_gp. Qed.
  Lemma eq_imul x y : imul x y == gp O A x y. Proof. apply eq_F, wf_gp. Qed.
  Lemma wf_isub x y : wf (isub x y). Proof. apply wf_F, wf_sub. Qed.
  Lemma eq_isub x y : isub x y == sub O A x y. Proof. apply eq_F, wf_sub. Qed.
  Lemma wf_irev x : wf (i_rev O F A x). Proof. apply wf_F, wf_cs. Qed.
  Lemma eq_irev x : i_rev O F A x == reverse O A x. Proof. apply eq_F, wf_cs. Qed.
  Lemma wf_iconj x : wf (i_conj O F A x). Proof. apply wf_F, wf_cs. Qed.
  Lemma eq_iconj x : i_conj O F A x == conjugate O A x. Proof. apply eq_F, wf_cs. Qed.
  Lemma wf_iinvo x : wf (i_invo O F A x). Proof. apply wf_F, wf_cs. Qed.
  Lemma eq_iinvo x : i_invo O F A x == involute O A x. Proof. apply eq_F, wf_cs. Qed.
  Lemma wf_isp x y : wf (i_sp O F A x y). Proof. apply wf_F, wf_cs. Qed.
  Lemma eq_isp x y : i_sp O F A x y == sp O A x y. Proof. apply eq_F, wf_cs. Qed.
  Lemma wf_scalar c : wf (scalar_mv c). Proof. apply wfmv_scalar. Qed.
  Lemma wf_blade_e : wf (blade_e O). Proof. apply wfmv_scalar. Qed.
  Lemma wf_one : wf one. Proof. apply wfmv_one. Qed.
  Lemma wf_scal c x : wf x -> wf (scal c x). Proof. apply wfmv_scal. Qed.

  (* congruences of gp in the form used below *)
  Lemma gp_cl x x' y : wf x -> wf x' -> wf y -> x == x' -> gp O A x y == gp O A x' y.
  Proof. apply gp_congr_l; exact Rth. Qed.
  Lemma gp_cr x y y' : wf x -> wf y -> wf y' -> y == y' -> gp O A x y == gp O A x y'.
  Proof. apply gp_congr_r; exact Rth. Qed.

  (* ================= 1. soundness of "numerator over scalar denominator" ================= *)

  Theorem inv_sound x num den e : wf x -> wf num ->
    gp O A x num == scal den one -> gp O A num x == scal den one -> (den * e)%r = rI ->
    gp O A x (scal e num) == one /\ gp O A (scal e num) x == one.
  Proof.
    intros Hx Hn H1 H2 He. split.
    - apply (AT inv_from_scalar_r x num den e); assumption.
    - apply (AT inv_from_scalar_l x num den e); assumption.
  Qed.

  Theorem inverse_unique' x y z : wf x -> wf y -> wf z ->
    gp O A x y == one -> gp O A z x == one -> y == z.
  Proof. apply (AT inverse_unique). Qed.

  (* any two two-sided inverses coincide *)
  Corollary two_sided_unique x y z : wf x -> wf y -> wf z ->
    gp O A x y == one -> gp O A y x == one -> gp O A x z == one -> gp O A z x == one -> y == z.
  Proof. intros Hx Hy Hz H1 _ _ H4. apply (inverse_unique' x y z); assumption. Qed.

  (* ================= 2. the generators never raise ZeroDivisionError ================= *)

  Lemma grade_sel_no_zde grades (x : mv R) : grade_sel O A grades x <> Err EZeroDiv.
  Proof.
    unfold grade_sel. intros H. apply bind_Err in H. destruct H as [H|(a & _ & H)]; [|discriminate].
    unfold indices_for_grades in H. destruct (_ && _); discriminate.
  Qed.

  Lemma hitzer_no_zde x : hitzer O F A x <> Err EZeroDiv.
  Proof.
    unfold hitzer. intros H. apply bind_Err in H. destruct H as [H|(a & _ & H)]; [|discriminate].
    unfold hitzer_num in H.
    destruct (a_d A) as [|[|[|[|[|[|n]]]]]]; try discriminate;
      apply bind_Err in H; destruct H as [H|(a & _ & H)]; try discriminate;
      exact (grade_sel_no_zde _ _ H).
  Qed.

  Lemma minimal_chains_loop_err fuel limit chains er :
    minimal_chains_loop fuel limit chains = Err er -> er = EFuel.
  Proof.
    revert chains. induction fuel as [|f IH]; intros chains; cbn [minimal_chains_loop];
      destruct (chains_missing limit chains); try discriminate.
    - intros H. inversion H. reflexivity.
    - apply IH.
  Qed.

  Lemma supply_next_err chains pw step er :
    supply_next O F A chains pw step = Err er -> er = EKey \/ er = EIndex.
  Proof.
    unfold supply_next. destruct (zassoc step pw); [discriminate|].
    intros H.
    apply bind_Err in H. destruct H as [H|(c1 & _ & H)]; [left; exact (of_opt_Err _ _ _ H)|].
    apply bind_Err in H. destruct H as [H|(c2 & _ & H)]; [right; exact (of_opt_Err _ _ _ H)|].
    apply bind_Err in H. destruct H as [H|(c3 & _ & H)]; [left; exact (of_opt_Err _ _ _ H)|].
    apply bind_Err in H. destruct H as [H|(c4 & _ & H)]; [left; exact (of_opt_Err _ _ _ H)|].
    discriminate.
  Qed.

  Lemma shirokov_loop_err chains n is : forall pw powers cs xs cur er,
    shirokov_loop O dv isz F A chains n is pw powers cs xs cur = Err er -> er = EKey \/ er = EIndex.
  Proof.
    induction is as [|i is IH]; intros pw powers cs xs cur er; cbn [shirokov_loop]; [discriminate|].
    intros H. apply bind_Err in H. destruct H as [H|([pw' p] & _ & H)].
    - exact (supply_next_err _ _ _ _ H).
    - cbv beta iota zeta in H. destruct (grades_is_0 _); [discriminate|]. exact (IH _ _ _ _ _ _ H).
  Qed.

  Lemma shirokov_no_zde x : shirokov O dv isz F A x <> Err EZeroDiv.
  Proof.
    unfold shirokov, shirokov_run. intros H.
    apply bind_Err in H. destruct H as [H|([[[i xi] xs] cs] & _ & H)]; [|discriminate].
    apply bind_Err in H. destruct H as [H|(chains & _ & H)].
    - apply minimal_chains_loop_err in H. discriminate.
    - apply shirokov_loop_err in H. destruct H; discriminate.
  Qed.

  Theorem inv_numden_no_zde y : inv_numden O dv isz F A y <> Err EZeroDiv.
  Proof.
    unfold inv_numden. destruct (Nat.ltb (a_d A) 6); [apply hitzer_no_zde | apply shirokov_no_zde].
  Qed.

  (* ================= 3. codegen_inv / codegen_div unfolded ================= *)

  (* ZeroDivisionError is raised exactly when the generated denominator tests zero *)
  Theorem zde_iff y :
    inv_model O dv isz F A y = Err EZeroDiv
    <-> exists num den, inv_numden O dv isz F A y = Ok (num, den) /\ isz den = true.
  Proof.
    unfold inv_model. split.
    - intros H. apply bind_Err in H. destruct H as [H|([num den] & E & H)].
      + exfalso. exact (inv_numden_no_zde y H).
      + exists num, den. split; [exact E|]. cbv beta iota zeta in H.
        destruct (isz den); [reflexivity | discriminate].
    - intros (num & den & E & Hz). rewrite E. cbn [bind]. rewrite Hz. reflexivity.
  Qed.

  (* every other error of alg.inv comes from the generator *)
  Theorem inv_model_err y er : er <> EZeroDiv ->
    (inv_model O dv isz F A y = Err er <-> inv_numden O dv isz F A y = Err er).
  Proof.
    intros Hne. unfold inv_model. split.
    - intros H. apply bind_Err in H. destruct H as [H|([num den] & E & H)]; [exact H|].
      cbv beta iota zeta in H. destruct (isz den); [|discriminate].
      inversion H. subst er. exfalso. apply Hne. reflexivity.
    - intros E. rewrite E. reflexivity.
  Qed.

  (* a returned value is the numerator times the inverse of the denominator *)
  Theorem inv_model_ok y r :
    inv_model O dv isz F A y = Ok r
    <-> exists num den, inv_numden O dv isz F A y = Ok (num, den) /\ isz den = false
                        /\ r = imul num (scalar_mv (dv rI den)).
  Proof.
    unfold inv_model. split.
    - intros H. apply bind_Ok in H. destruct H as ([num den] & E & H). cbv beta iota zeta in H.
      exists num, den. destruct (isz den); [discriminate|]. inversion H. auto.
    - intros (num & den & E & Hz & ->). rewrite E. cbn [bind]. rewrite Hz. reflexivity.
  Qed.

  Lemma imul_scalar num e : wf num -> imul num (scalar_mv e) == scal e num.
  Proof.
    intros Hn. transitivity (gp O A num (scalar_mv e)); [apply eq_imul|].
    apply (AT gp_scalar_r). exact Hn.
  Qed.

  (* the well-formedness of what the generators return *)
  Lemma hitzer_num_wf x num : hitzer_num O F A x = Ok num -> wf num.
  Proof.
    unfold hitzer_num.
    destruct (a_d A) as [|[|[|[|[|[|n]]]]]]; try discriminate; intros H.
    - inversion H. apply wf_blade_e.
    - inversion H. apply wf_iinvo.
    - inversion H. apply wf_iconj.
    - inversion H. apply wf_imul.
    - apply bind_Ok in H. destruct H as (g & _ & H). inversion H. apply wf_imul.
    - apply bind_Ok in H. destruct H as (g & _ & H). inversion H. apply wf_imul.
  Qed.

  Lemma shirokov_wf x adj den : shirokov O dv isz F A x = Ok (adj, den) -> wf adj.
  Proof.
    unfold shirokov. intros H. apply bind_Ok in H. destruct H as ([[[i xi] xs] cs] & _ & H).
    cbv beta iota zeta in H. inversion H. unfold shirokov_adj.
    destruct (Nat.eqb i 1); [apply wf_blade_e | apply wf_isub].
  Qed.

  Theorem inv_numden_wf y num den : inv_numden O dv isz F A y = Ok (num, den) -> wf num.
  Proof.
    unfold inv_numden. destruct (Nat.ltb (a_d A) 6).
    - unfold hitzer. intros H. apply bind_Ok in H. destruct H as (n & E & H). inversion H. subst.
      exact (hitzer_num_wf _ _ E).
    - apply shirokov_wf.
  Qed.

  Theorem inv_model_wf y r : inv_model O dv isz F A y = Ok r -> wf r.
  Proof. intros H. apply inv_model_ok in H. destruct H as (num & den & _ & _ & ->). apply wf_imul. Qed.

  (* what alg.inv returns is a two-sided inverse as soon as the numerator/denominator pair satisfies
     the two scalar equations and the coefficient division inverts the denominator *)
  Theorem inv_model_sound y num den r : wf y ->
    inv_numden O dv isz F A y = Ok (num, den) ->
    gp O A y num == scal den one -> gp O A num y == scal den one ->
    (den * dv rI den)%r = rI ->
    inv_model O dv isz F A y = Ok r ->
    gp O A y r == one /\ gp O A r y == one.
  Proof.
    intros Hy E H1 H2 He Hr.
    pose proof (inv_numden_wf _ _ _ E) as Hn.
    apply inv_model_ok in Hr. destruct Hr as (num' & den' & E' & _ & ->).
    rewrite E in E'. inversion E'. subst num' den'.
    destruct (inv_sound y num den (dv rI den) Hy Hn H1 H2 He) as [G1 G2].
    pose proof (imul_scalar num (dv rI den) Hn) as Hs.
    split.
    - transitivity (gp O A y (scal (dv rI den) num)); [|exact G1].
      apply gp_cr; [exact Hy | apply wf_imul | apply wf_scal; exact Hn | exact Hs].
    - transitivity (gp O A (scal (dv rI den) num) y); [|exact G2].
      apply gp_cl; [apply wf_imul | apply wf_scal; exact Hn | exact Hy | exact Hs].
  Qed.

  (* a / b = a * b.inv(): same error, or the product with the value alg.inv returns *)
  Theorem div_spec x y : wf x ->
    match div_model O dv isz F A x y, inv_model O dv isz F A y with
    | Ok r, Ok yi => r == gp O A x yi
    | Err e1, Err e2 => e1 = e2
    | _, _ => False
    end.
  Proof.
    intros Hx. unfold div_model, inv_model.
    destruct (inv_numden O dv isz F A y) as [[num den]|er] eqn:E; cbn [bind]; [|reflexivity].
    cbv beta iota zeta. destruct (isz den); [reflexivity|].
    pose proof (inv_numden_wf _ _ _ E) as Hn.
    set (e := dv rI den).
    transitivity (scal e (imul x num)); [apply imul_scalar; apply wf_imul|].
    transitivity (scal e (gp O A x num)); [apply (scal_congr R rO rI radd rmul rsub ropp Rth); apply eq_imul|].
    transitivity (gp O A x (scal e num)); [symmetry; apply (AT gp_scal_r); assumption|].
    apply gp_cr; [exact Hx | apply wf_scal; exact Hn | apply wf_imul | symmetry; apply imul_scalar; exact Hn].
  Qed.

  (* number / x = number * x.inv() *)
  Theorem rdiv_spec c x :
    match rdiv_number O dv isz F A c x, inv_model O dv isz F A x with
    | Ok r, Ok xi => r == scal c xi /\ r == gp O A (scalar_mv c) xi
    | Err e1, Err e2 => e1 = e2
    | _, _ => False
    end.
  Proof.
    unfold rdiv_number. pose proof (div_spec (scalar_mv c) x (wf_scalar c)) as H.
    destruct (div_model O dv isz F A (scalar_mv c) x) as [r|e1];
      destruct (inv_model O dv isz F A x) as [xi|e2] eqn:E; try exact H.
    split; [|exact H]. transitivity (gp O A (scalar_mv c) xi); [exact H|].
    apply (AT gp_scalar_l). exact (inv_model_wf _ _ E).
  Qed.

  (* x ** -1 is x.inv(); x ** 0 is the scalar 1 *)
  Theorem pow_model_m1 x : pow_model O dv isz F A x (-1) = inv_model O dv isz F A x.
  Proof.
    unfold pow_model. cbn [Z.eqb Z.ltb Z.compare Z.opp Z.to_nat Pos.to_nat Pos.iter_op Nat.sub seq fold_left].
    destruct (inv_model O dv isz F A x); reflexivity.
  Qed.
  Theorem pow_model_0 x : pow_model O dv isz F A x 0 = Ok (blade_e O).
  Proof. reflexivity. Qed.

End Inverse.

Arguments filter_ok {R} rO rI radd rmul rsub ropp A F.

(* ================= the filter hypothesis holds for the two filters kingdon uses ================= *)
Section Filters.
  Variable R : Type.
  Variables (rO rI : R) (radd rmul rsub : R -> R -> R) (ropp : R -> R).
  Local Notation O := (mkOps R radd rsub rmul ropp rO rI).
  Local Notation equiv := (Sparse.equiv rO rI radd rmul rsub ropp).
  Variable A : alg.

  (* numeric path: nothing is dropped *)
  Lemma filter_ok_id : filter_ok rO rI radd rmul rsub ropp A (fun z => z).
  Proof. intros z Hz. split; [exact Hz | intros K; reflexivity]. Qed.

  (* symbolic path: coefficients testing zero are dropped; the test is only true on 0 *)
  Lemma filter_ok_nz (isz : R -> bool) : (forall r, isz r = true -> r = rO) ->
    filter_ok rO rI radd rmul rsub ropp A (filter_nz isz).
  Proof.
    intros Hz z [Hnd Hr]. split.
    - split; [apply NoDup_keys_filter_nz; exact Hnd|].
      intros k Hk. apply Hr. apply (keys_filter_nz_incl isz z). exact Hk.
    - clear Hr. intros K. induction z as [|[k v] z IH]; [reflexivity|].
      cbn [keys map fst] in Hnd. inversion Hnd as [|? ? Hk Hnd']; subst. specialize (IH Hnd').
      unfold filter_nz in *. cbn [filter snd]. destruct (isz v) eqn:E; cbn [negb].
      + rewrite IH. cbn [coeff]. destruct (Z.eqb k K) eqn:EK; [|reflexivity].
        apply Z.eqb_eq in EK. subst K. rewrite (Hz v E).
        apply (coeff_notin R rO rI radd rmul rsub ropp). exact Hk.
      + cbn [coeff]. destruct (Z.eqb k K); [reflexivity | exact IH].
  Qed.
End Filters.
