(* Theory/Natural.v — naturality of kingdon's generated operators (Model/Codegen.v) under maps of the
   coefficients that preserve the operations, and the composite operators sw / proj / normsq
   (Model/Composite.v).

     1. LITERAL naturality: for h : R -> S preserving the six operations of the [ops] records
        (no ring law is used, no hypothesis on the operands)
            map_mv h (gp OR A x y) = gp OS A (map_mv h x) (map_mv h y)
        as lists, and the same for every operator of Model/Codegen.v and for sw / proj / normsq.
     2. OperatorDict.filter: dropping coefficients that h sends to 0 does not change the image under h
        (as a sparse multivector, ==), keys only shrink, NoDup is preserved.
     3. C06: the composites generated on the symbolic path (filter after every elementary operator),
        evaluated by h, are the compositions of the elementary operators on the evaluated operands.
     4. Instances: (a) C16 indexing array-valued coefficients, (b) C12 substitution into kingdon's
        Polynomial class, and C06 for that class with the filter `bool(coefficient)`.
     5. Closed examples.  *)
From Coq Require Import List ZArith Bool Ring Lia Permutation.
From KV Require Import Model.Codegen Model.Composite Model.Poly.
From KV Require Import Theory.Sparse Theory.Product Theory.Poly.
Import ListNotations.

(* h preserves the operations of the two records: all that "ring homomorphism" means for the
   generated code, which only ever applies these six operations to the stored coefficients *)
Record ops_hom {R S : Type} (OR : ops R) (OS : ops S) (h : R -> S) : Prop := mkHom {
  hom_zero : h (o_zero OR) = o_zero OS;
  hom_one : h (o_one OR) = o_one OS;
  hom_add : forall a b, h (o_add OR a b) = o_add OS (h a) (h b);
  hom_sub : forall a b, h (o_sub OR a b) = o_sub OS (h a) (h b);
  hom_mul : forall a b, h (o_mul OR a b) = o_mul OS (h a) (h b);
  hom_neg : forall a, h (o_neg OR a) = o_neg OS (h a);
}.

(* the operators that can fail: same outcome, Ok values related by f *)
Definition map_res {A B} (f : A -> B) (r : res A) : res B :=
  match r with Ok a => Ok (f a) | Err e => Err e end.

(* ---------- list helpers ---------- *)

Lemma list_prod_map {A A' B B'} (f : A -> A') (g : B -> B') (x : list A) (y : list B) :
  list_prod (map f x) (map g y) = map (fun p => (f (fst p), g (snd p))) (list_prod x y).
Proof.
  induction x as [|a x IH]; cbn [map list_prod].
  - reflexivity.
  - rewrite map_app, IH, !map_map. reflexivity.
Qed.

Lemma map_flat_map_comm {A B C} (g : B -> C) (f : A -> list B) (l : list A) :
  map g (flat_map f l) = flat_map (fun a => map g (f a)) l.
Proof.
  induction l as [|a l IH]; cbn [flat_map map].
  - reflexivity.
  - rewrite map_app, IH. reflexivity.
Qed.

(* ================= 1. literal naturality ================= *)

Section Literal.
  Context {R S : Type} (OR : ops R) (OS : ops S) (h : R -> S).
  Hypothesis Hh : ops_hom OR OS h.
  Local Notation mh := (map_mv h).

  (* --- facts that need nothing about h --- *)

  Lemma map_mv_nil : mh [] = [].
  Proof. reflexivity. Qed.

  Lemma map_mv_cons k v (x : mv R) : mh ((k, v) :: x) = (k, h v) :: mh x.
  Proof. reflexivity. Qed.

  Lemma map_mv_app (x y : mv R) : mh (x ++ y) = mh x ++ mh y.
  Proof. apply map_app. Qed.

  Theorem keys_map_mv (x : mv R) : keys (mh x) = keys x.
  Proof. unfold keys, map_mv. rewrite map_map. apply map_ext. intros kv. reflexivity. Qed.

  Lemma length_map_mv (x : mv R) : length (mh x) = length x.
  Proof. apply map_length. Qed.

  Lemma zassoc_map_mv k (d : mv R) : zassoc k (mh d) = option_map h (zassoc k d).
  Proof.
    induction d as [|[k' v] r IH]; cbn [map_mv map fst snd zassoc].
    - reflexivity.
    - destruct (Z.eqb k' k); [reflexivity | exact IH].
  Qed.

  Lemma zset_map_mv k v (d : mv R) : zset k (h v) (mh d) = mh (zset k v d).
  Proof.
    induction d as [|[k' w] r IH]; cbn [map_mv map fst snd zset].
    - reflexivity.
    - destruct (Z.eqb k' k); cbn [map fst snd].
      + reflexivity.
      + f_equal. exact IH.
  Qed.

  Lemma todict_fold_map_mv (x d : mv R) :
    fold_left (fun d kv => zset (fst kv) (snd kv) d) (mh x) (mh d)
    = mh (fold_left (fun d kv => zset (fst kv) (snd kv) d) x d).
  Proof.
    revert d. induction x as [|[k v] r IH]; intros d; cbn [map_mv map fold_left fst snd].
    - reflexivity.
    - rewrite zset_map_mv. apply IH.
  Qed.

  Lemma todict_map_mv (x : mv R) : todict (mh x) = mh (todict x).
  Proof. unfold todict. apply (todict_fold_map_mv x []). Qed.

  (* the re-sort of do_codegen *)
  Theorem nat_canon_sort A (d : mv R) : mh (canon_sort A d) = canon_sort A (mh d).
  Proof.
    unfold canon_sort. generalize (canon_keys A) as L. intros L.
    unfold map_mv at 1. rewrite map_flat_map_comm. apply flat_map_ext. intros k.
    rewrite zassoc_map_mv. destruct (zassoc k d); reflexivity.
  Qed.

  (* entry-wise maps of keys and values (neg, the involutions, the Hodge duals) *)
  Lemma map_kv_map_mv (f : Z -> Z) (gR : Z -> R -> R) (gS : Z -> S -> S) (x : mv R) :
    (forall k v, h (gR k v) = gS k (h v)) ->
    map (fun kv => (f (fst kv), gS (fst kv) (snd kv))) (mh x)
    = mh (map (fun kv => (f (fst kv), gR (fst kv) (snd kv))) x).
  Proof.
    intros Hg. unfold map_mv. rewrite !map_map. apply map_ext. intros [k v]. cbn [fst snd].
    rewrite Hg. reflexivity.
  Qed.

  (* --- facts that use the preservation of the operations --- *)

  Theorem coeff_map_mv K (x : mv R) : coeff OS K (mh x) = h (coeff OR K x).
  Proof.
    induction x as [|[k v] r IH]; cbn [map_mv map fst snd coeff].
    - symmetry. apply (hom_zero _ _ _ Hh).
    - destruct (Z.eqb k K); [reflexivity | exact IH].
  Qed.

  Lemma dacc_map_mv k t (d : mv R) : dacc OS k (h t) (mh d) = mh (dacc OR k t d).
  Proof.
    induction d as [|[k' v] r IH]; cbn [map_mv map fst snd dacc].
    - reflexivity.
    - destruct (Z.eqb k' k); cbn [map fst snd].
      + rewrite (hom_add _ _ _ Hh). reflexivity.
      + f_equal. exact IH.
  Qed.

  Definition map_pair (p : (Z * R) * (Z * R)) : (Z * S) * (Z * S) :=
    ((fst (fst p), h (snd (fst p))), (fst (snd p), h (snd (snd p)))).

  Lemma product_step_map_mv sfun filt kout (res : mv R) p :
    product_step OS sfun filt kout (mh res) (map_pair p)
    = mh (product_step OR sfun filt kout res p).
  Proof.
    destruct p as [[kx vx] [ky vy]]. unfold map_pair, product_step. cbn [fst snd].
    destruct (Z.eqb (sfun kx ky) 0); [reflexivity|].
    destruct (match filt with Some f => negb (f kx ky (kout kx ky)) | None => false end);
      [reflexivity|].
    destruct (Z.ltb 0 (sfun kx ky)).
    - rewrite <- (hom_mul _ _ _ Hh). apply dacc_map_mv.
    - rewrite <- (hom_neg _ _ _ Hh), <- (hom_mul _ _ _ Hh). apply dacc_map_mv.
  Qed.

  Lemma product_fold_map_mv sfun filt kout l : forall res : mv R,
    fold_left (product_step OS sfun filt kout) (map map_pair l) (mh res)
    = mh (fold_left (product_step OR sfun filt kout) l res).
  Proof.
    induction l as [|p l IH]; intros res; cbn [map fold_left].
    - reflexivity.
    - rewrite product_step_map_mv. apply IH.
  Qed.

  (* C12/C13/C16 kernel: the generated product commutes LITERALLY with h: same keys, same order,
     corresponding values; duplicates, unsorted operands, stored zeros all allowed *)
  Theorem nat_codegen_product sfun filt kout (x y : mv R) :
    mh (codegen_product OR sfun filt kout x y) = codegen_product OS sfun filt kout (mh x) (mh y).
  Proof.
    unfold codegen_product. unfold map_mv at 2 3. rewrite list_prod_map.
    symmetry. apply (product_fold_map_mv sfun filt kout (list_prod x y) []).
  Qed.

  Lemma add_step_map_mv (d : mv R) kv :
    add_step OS (mh d) (fst kv, h (snd kv)) = mh (add_step OR d kv).
  Proof.
    destruct kv as [k v]. unfold add_step. cbn [fst snd]. rewrite zassoc_map_mv.
    destruct (zassoc k d) as [a|]; cbn [option_map].
    - rewrite <- (hom_add _ _ _ Hh). apply zset_map_mv.
    - apply zset_map_mv.
  Qed.

  Lemma sub_step_map_mv (d : mv R) kv :
    sub_step OS (mh d) (fst kv, h (snd kv)) = mh (sub_step OR d kv).
  Proof.
    destruct kv as [k v]. unfold sub_step. cbn [fst snd]. rewrite zassoc_map_mv.
    destruct (zassoc k d) as [a|]; cbn [option_map].
    - rewrite <- (hom_sub _ _ _ Hh). apply zset_map_mv.
    - rewrite <- (hom_neg _ _ _ Hh). apply zset_map_mv.
  Qed.

  Lemma add_fold_map_mv (y : mv R) : forall d : mv R,
    fold_left (add_step OS) (mh y) (mh d) = mh (fold_left (add_step OR) y d).
  Proof.
    induction y as [|kv r IH]; intros d; cbn [map_mv map fold_left].
    - reflexivity.
    - rewrite add_step_map_mv. apply IH.
  Qed.

  Lemma sub_fold_map_mv (y : mv R) : forall d : mv R,
    fold_left (sub_step OS) (mh y) (mh d) = mh (fold_left (sub_step OR) y d).
  Proof.
    induction y as [|kv r IH]; intros d; cbn [map_mv map fold_left].
    - reflexivity.
    - rewrite sub_step_map_mv. apply IH.
  Qed.

  Theorem nat_raw_add (x y : mv R) : mh (raw_add OR x y) = raw_add OS (mh x) (mh y).
  Proof. unfold raw_add. rewrite todict_map_mv. symmetry. apply add_fold_map_mv. Qed.

  Theorem nat_raw_sub (x y : mv R) : mh (raw_sub OR x y) = raw_sub OS (mh x) (mh y).
  Proof. unfold raw_sub. rewrite todict_map_mv. symmetry. apply sub_fold_map_mv. Qed.

  Theorem nat_raw_neg (x : mv R) : mh (raw_neg OR x) = raw_neg OS (mh x).
  Proof.
    unfold raw_neg.
    rewrite (map_kv_map_mv (fun k => k) (fun _ v => o_neg OR v) (fun _ v => o_neg OS v)).
    - symmetry. apply todict_map_mv.
    - intros _ v. apply (hom_neg _ _ _ Hh).
  Qed.

  Theorem nat_raw_involution g (x : mv R) :
    mh (raw_involution OR g x) = raw_involution OS g (mh x).
  Proof.
    unfold raw_involution.
    rewrite (map_kv_map_mv (fun k => k)
               (fun k v => if involution_flips g k then o_neg OR v else v)
               (fun k v => if involution_flips g k then o_neg OS v else v)).
    - symmetry. apply todict_map_mv.
    - intros k v. destruct (involution_flips g k); [apply (hom_neg _ _ _ Hh) | reflexivity].
  Qed.

  Theorem nat_raw_hodge A (x : mv R) : mh (raw_hodge OR A x) = raw_hodge OS A (mh x).
  Proof.
    unfold raw_hodge. cbv zeta.
    rewrite (map_kv_map_mv (fun k => Z.sub (pss_key A) k)
               (fun k v => if Z.ltb (sgn A k (Z.sub (pss_key A) k)) 0 then o_neg OR v else v)
               (fun k v => if Z.ltb (sgn A k (Z.sub (pss_key A) k)) 0 then o_neg OS v else v)).
    - symmetry. apply todict_map_mv.
    - intros k v. destruct (Z.ltb (sgn A k (Z.sub (pss_key A) k)) 0);
        [apply (hom_neg _ _ _ Hh) | reflexivity].
  Qed.

  Theorem nat_raw_unhodge A (x : mv R) : mh (raw_unhodge OR A x) = raw_unhodge OS A (mh x).
  Proof.
    unfold raw_unhodge. cbv zeta.
    rewrite (map_kv_map_mv (fun k => Z.sub (pss_key A) k)
               (fun k v => if Z.ltb (sgn A (Z.sub (pss_key A) k) k) 0 then o_neg OR v else v)
               (fun k v => if Z.ltb (sgn A (Z.sub (pss_key A) k) k) 0 then o_neg OS v else v)).
    - symmetry. apply todict_map_mv.
    - intros k v. destruct (Z.ltb (sgn A (Z.sub (pss_key A) k) k) 0);
        [apply (hom_neg _ _ _ Hh) | reflexivity].
  Qed.

  (* --- the operators as alg.<op>(x, y) returns them --- *)

  Theorem nat_gp A (x y : mv R) : mh (gp OR A x y) = gp OS A (mh x) (mh y).
  Proof. unfold gp, raw_gp. rewrite nat_canon_sort, nat_codegen_product. reflexivity. Qed.
  Theorem nat_op A (x y : mv R) : mh (op OR A x y) = op OS A (mh x) (mh y).
  Proof. unfold op, raw_op. rewrite nat_canon_sort, nat_codegen_product. reflexivity. Qed.
  Theorem nat_ip A (x y : mv R) : mh (ip OR A x y) = ip OS A (mh x) (mh y).
  Proof. unfold ip, raw_ip. rewrite nat_canon_sort, nat_codegen_product. reflexivity. Qed.
  Theorem nat_lc A (x y : mv R) : mh (lc OR A x y) = lc OS A (mh x) (mh y).
  Proof. unfold lc, raw_lc. rewrite nat_canon_sort, nat_codegen_product. reflexivity. Qed.
  Theorem nat_rc A (x y : mv R) : mh (rc OR A x y) = rc OS A (mh x) (mh y).
  Proof. unfold rc, raw_rc. rewrite nat_canon_sort, nat_codegen_product. reflexivity. Qed.
  Theorem nat_sp A (x y : mv R) : mh (sp OR A x y) = sp OS A (mh x) (mh y).
  Proof. unfold sp, raw_sp. rewrite nat_canon_sort, nat_codegen_product. reflexivity. Qed.
  Theorem nat_cp A (x y : mv R) : mh (cp OR A x y) = cp OS A (mh x) (mh y).
  Proof. unfold cp, raw_cp. rewrite nat_canon_sort, nat_codegen_product. reflexivity. Qed.
  Theorem nat_acp A (x y : mv R) : mh (acp OR A x y) = acp OS A (mh x) (mh y).
  Proof. unfold acp, raw_acp. rewrite nat_canon_sort, nat_codegen_product. reflexivity. Qed.
  Theorem nat_rp A (x y : mv R) : mh (rp OR A x y) = rp OS A (mh x) (mh y).
  Proof. unfold rp, raw_rp. rewrite nat_canon_sort, nat_codegen_product. reflexivity. Qed.
  Theorem nat_add A (x y : mv R) : mh (add OR A x y) = add OS A (mh x) (mh y).
  Proof. unfold add. rewrite nat_canon_sort, nat_raw_add. reflexivity. Qed.
  Theorem nat_sub A (x y : mv R) : mh (sub OR A x y) = sub OS A (mh x) (mh y).
  Proof. unfold sub. rewrite nat_canon_sort, nat_raw_sub. reflexivity. Qed.
  Theorem nat_neg A (x : mv R) : mh (neg OR A x) = neg OS A (mh x).
  Proof. unfold neg. rewrite nat_canon_sort, nat_raw_neg. reflexivity. Qed.
  Theorem nat_reverse A (x : mv R) : mh (reverse OR A x) = reverse OS A (mh x).
  Proof. unfold reverse. rewrite nat_canon_sort, nat_raw_involution. reflexivity. Qed.
  Theorem nat_involute A (x : mv R) : mh (involute OR A x) = involute OS A (mh x).
  Proof. unfold involute. rewrite nat_canon_sort, nat_raw_involution. reflexivity. Qed.
  Theorem nat_conjugate A (x : mv R) : mh (conjugate OR A x) = conjugate OS A (mh x).
  Proof. unfold conjugate. rewrite nat_canon_sort, nat_raw_involution. reflexivity. Qed.
  Theorem nat_hodge A (x : mv R) : mh (hodge OR A x) = hodge OS A (mh x).
  Proof. unfold hodge. rewrite nat_canon_sort, nat_raw_hodge. reflexivity. Qed.
  Theorem nat_unhodge A (x : mv R) : mh (unhodge OR A x) = unhodge OS A (mh x).
  Proof. unfold unhodge. rewrite nat_canon_sort, nat_raw_unhodge. reflexivity. Qed.

  Theorem nat_pss_mv A : mh (pss_mv OR A) = pss_mv OS A.
  Proof. unfold pss_mv. cbn [map_mv map fst snd]. rewrite (hom_one _ _ _ Hh). reflexivity. Qed.

  Theorem nat_unpolarity A (x : mv R) : mh (unpolarity OR A x) = unpolarity OS A (mh x).
  Proof. unfold unpolarity. rewrite nat_gp, nat_pss_mv. reflexivity. Qed.

  (* the operators that may fail: Ok / Err in the same cases, Ok values related by map_mv h *)
  Theorem nat_polarity A (x : mv R) :
    map_res mh (polarity OR A x) = polarity OS A (mh x).
  Proof.
    unfold polarity. cbv zeta.
    destruct (Z.eqb (sgn A (pss_key A) (pss_key A)) (-1)).
    { cbn [map_res]. rewrite nat_gp, nat_neg, nat_pss_mv. reflexivity. }
    destruct (Z.eqb (sgn A (pss_key A) (pss_key A)) 1).
    { cbn [map_res]. rewrite nat_gp, nat_pss_mv. reflexivity. }
    destruct (Z.eqb (sgn A (pss_key A) (pss_key A)) 0); reflexivity.
  Qed.

  Theorem nat_dual A k (x : mv R) : map_res mh (dual OR A k x) = dual OS A k (mh x).
  Proof.
    unfold dual. destruct k.
    - destruct (Nat.eqb (alg_r A) 0); [apply nat_polarity|].
      destruct (Nat.eqb (alg_r A) 1); [|reflexivity].
      cbn [map_res]. rewrite nat_hodge. reflexivity.
    - apply nat_polarity.
    - cbn [map_res]. rewrite nat_hodge. reflexivity.
    - reflexivity.
  Qed.

  Theorem nat_undual A k (x : mv R) : map_res mh (undual OR A k x) = undual OS A k (mh x).
  Proof.
    unfold undual. destruct k.
    - destruct (Nat.eqb (alg_r A) 0); [cbn [map_res]; rewrite nat_unpolarity; reflexivity|].
      destruct (Nat.eqb (alg_r A) 1); [|reflexivity].
      cbn [map_res]. rewrite nat_unhodge. reflexivity.
    - cbn [map_res]. rewrite nat_unpolarity. reflexivity.
    - cbn [map_res]. rewrite nat_unhodge. reflexivity.
    - reflexivity.
  Qed.

  Theorem nat_grade_sel A grades (x : mv R) :
    map_res mh (grade_sel OR A grades x) = grade_sel OS A grades (mh x).
  Proof.
    unfold grade_sel. destruct (indices_for_grades A grades) as [ks|e]; cbn [bind map_res].
    - f_equal. unfold map_mv at 1. rewrite map_flat_map_comm. apply flat_map_ext. intros k.
      rewrite keys_map_mv, coeff_map_mv. destruct (zin k (keys x)); reflexivity.
    - reflexivity.
  Qed.

  (* Ok / Err in the same cases, stated separately *)
  Corollary map_res_Ok_iff {A B} (f : A -> B) (r : res A) b :
    map_res f r = Ok b <-> exists a, r = Ok a /\ b = f a.
  Proof.
    destruct r as [a|e]; cbn [map_res]; split.
    - intros E. inversion E. exists a. split; reflexivity.
    - intros [a' [E1 E2]]. inversion E1. subst. reflexivity.
    - discriminate.
    - intros [a' [E1 _]]. discriminate.
  Qed.

  Corollary map_res_Err_iff {A B} (f : A -> B) (r : res A) e :
    map_res f r = @Err B e <-> r = Err e.
  Proof.
    destruct r as [a|e']; cbn [map_res]; split; intros E; try discriminate; inversion E; reflexivity.
  Qed.

  (* --- the composite operators without the filter (the numeric path) --- *)

  Theorem nat_sw A (x y : mv R) : mh (sw OR A x y) = sw OS A (mh x) (mh y).
  Proof. unfold sw, sw_with. rewrite !nat_gp, nat_reverse. reflexivity. Qed.

  Theorem nat_proj A (x y : mv R) : mh (proj OR A x y) = proj OS A (mh x) (mh y).
  Proof. unfold proj, proj_with. rewrite nat_gp, nat_ip, nat_reverse. reflexivity. Qed.

  Theorem nat_normsq A (x : mv R) : mh (normsq OR A x) = normsq OS A (mh x).
  Proof. unfold normsq, normsq_with. rewrite nat_gp, nat_reverse. reflexivity. Qed.

End Literal.

Arguments map_pair {R S} h p.

(* a ring homomorphism in the usual sense (the six equations of the task statement) preserves the
   operations of the two records; the ring LAWS are not needed for part 1 *)
Lemma ring_hom_ops_hom {R S : Type}
      (rO rI : R) (radd rmul rsub : R -> R -> R) (ropp : R -> R)
      (sO sI : S) (sadd smul ssub : S -> S -> S) (sopp : S -> S) (h : R -> S) :
  h rO = sO -> h rI = sI ->
  (forall a b, h (radd a b) = sadd (h a) (h b)) ->
  (forall a b, h (rmul a b) = smul (h a) (h b)) ->
  (forall a b, h (rsub a b) = ssub (h a) (h b)) ->
  (forall a, h (ropp a) = sopp (h a)) ->
  ops_hom (mkOps R radd rsub rmul ropp rO rI) (mkOps S sadd ssub smul sopp sO sI) h.
Proof. intros H0 H1 Ha Hm Hs Hn. constructor; assumption. Qed.

Lemma ops_hom_id {R} (O : ops R) : ops_hom O O (fun r => r).
Proof. constructor; reflexivity. Qed.

Lemma ops_hom_comp {R S T} (OR : ops R) (OS : ops S) (OT : ops T) (h : R -> S) (g : S -> T) :
  ops_hom OR OS h -> ops_hom OS OT g -> ops_hom OR OT (fun r => g (h r)).
Proof.
  intros [h0 h1 ha hs hm hn] [g0 g1 ga gs gm gn]. constructor; intros; congruence.
Qed.

(* ================= 2. OperatorDict.filter ================= *)

(* ring-independent: keys only shrink, NoDup is preserved *)
Lemma keys_filter_nz {R} (isz : R -> bool) (x : mv R) K :
  In K (keys (filter_nz isz x)) -> In K (keys x).
Proof.
  unfold keys, filter_nz. intros H. apply in_map_iff in H. destruct H as [kv [E H]].
  apply filter_In in H. apply in_map_iff. exists kv. split; [exact E | apply H].
Qed.

Lemma keys_filter_nz_incl {R} (isz : R -> bool) (x : mv R) :
  incl (keys (filter_nz isz x)) (keys x).
Proof. intros K. apply keys_filter_nz. Qed.

Lemma NoDup_keys_filter_nz {R} (isz : R -> bool) (x : mv R) :
  NoDup (keys x) -> NoDup (keys (filter_nz isz x)).
Proof.
  induction x as [|[k v] r IH]; cbn [filter_nz filter keys map fst snd]; intros Hx.
  - constructor.
  - inversion Hx as [|? ? Hk Hr]; subst. fold (filter_nz isz r).
    destruct (negb (isz v)); cbn [map fst].
    + constructor; [|apply IH; exact Hr]. intros H. apply Hk. apply (keys_filter_nz isz r k H).
    + apply IH. exact Hr.
Qed.

Lemma filter_nz_id {R} (x : mv R) : filter_nz (fun _ => false) x = x.
Proof.
  unfold filter_nz. induction x as [|kv r IH]; cbn [filter negb]; [reflexivity | f_equal; exact IH].
Qed.

(* a property of every stored coefficient (e.g. the representation invariant of the symbol class) *)
Definition all_coeffs {R} (P : R -> Prop) (x : mv R) : Prop := Forall (fun kv => P (snd kv)) x.

Lemma all_coeffs_True {R} (x : mv R) : all_coeffs (fun _ => True) x.
Proof. apply Forall_forall. intros. exact I. Qed.

Lemma all_coeffs_filter_nz {R} (P : R -> Prop) isz (x : mv R) :
  all_coeffs P x -> all_coeffs P (filter_nz isz x).
Proof.
  unfold all_coeffs, filter_nz. rewrite !Forall_forall. intros H kv Hin.
  apply filter_In in Hin. apply H. apply Hin.
Qed.

(* ---------- invariants of the coefficients are preserved by the generated operators ---------- *)

Section AllCoeffs.
  Context {R : Type} (O : ops R) (P : R -> Prop).
  Hypothesis P_add : forall a b, P a -> P b -> P (o_add O a b).
  Hypothesis P_mul : forall a b, P a -> P b -> P (o_mul O a b).
  Hypothesis P_neg : forall a, P a -> P (o_neg O a).
  Local Notation allP := (all_coeffs P).

  Lemma all_coeffs_dacc k t (d : mv R) : P t -> allP d -> allP (dacc O k t d).
  Proof.
    intros Ht. induction d as [|[k' v] r IH]; cbn [dacc]; intros Hd.
    - constructor; [exact Ht | constructor].
    - inversion Hd as [|? ? Hv Hr]; subst. cbn [snd] in Hv. destruct (Z.eqb k' k).
      + constructor; [cbn [snd]; apply P_add; assumption | exact Hr].
      + constructor; [exact Hv | apply IH; exact Hr].
  Qed.

  Lemma all_coeffs_product_step sfun filt kout (res : mv R) p :
    P (snd (fst p)) -> P (snd (snd p)) -> allP res -> allP (product_step O sfun filt kout res p).
  Proof.
    destruct p as [[kx vx] [ky vy]]. cbn [fst snd]. intros Hx Hy Hres. unfold product_step.
    destruct (Z.eqb (sfun kx ky) 0); [exact Hres|].
    destruct (match filt with Some f => negb (f kx ky (kout kx ky)) | None => false end);
      [exact Hres|].
    apply all_coeffs_dacc; [|exact Hres].
    destruct (Z.ltb 0 (sfun kx ky)).
    - apply P_mul; assumption.
    - apply P_mul; [apply P_neg|]; assumption.
  Qed.

  Lemma all_coeffs_product_fold sfun filt kout l : forall res : mv R,
    (forall p, In p l -> P (snd (fst p)) /\ P (snd (snd p))) -> allP res ->
    allP (fold_left (product_step O sfun filt kout) l res).
  Proof.
    induction l as [|p l IH]; intros res Hl Hres; cbn [fold_left].
    - exact Hres.
    - apply IH.
      + intros q Hq. apply Hl. right. exact Hq.
      + destruct (Hl p (or_introl eq_refl)) as [H1 H2].
        apply all_coeffs_product_step; assumption.
  Qed.

  Lemma all_coeffs_codegen_product sfun filt kout (x y : mv R) :
    allP x -> allP y -> allP (codegen_product O sfun filt kout x y).
  Proof.
    intros Hx Hy. unfold codegen_product. apply all_coeffs_product_fold; [|constructor].
    intros [a b] Hin. apply in_prod_iff in Hin. destruct Hin as [Ha Hb]. cbn [fst snd].
    unfold all_coeffs in Hx, Hy. rewrite Forall_forall in Hx, Hy. split; [apply Hx | apply Hy]; assumption.
  Qed.

  Lemma all_coeffs_canon_sort A (d : mv R) : allP d -> allP (canon_sort A d).
  Proof.
    intros Hd. unfold canon_sort, all_coeffs. apply Forall_forall. intros kv Hin.
    apply in_flat_map in Hin. destruct Hin as [k [_ Hin]].
    destruct (zassoc k d) as [v|] eqn:E; [|destruct Hin].
    destruct Hin as [E2|[]]. subst kv. cbn [snd].
    apply zassoc_some_in in E. unfold all_coeffs in Hd. rewrite Forall_forall in Hd.
    apply (Hd (k, v) E).
  Qed.

  Lemma all_coeffs_zset k v (d : mv R) : P v -> allP d -> allP (zset k v d).
  Proof.
    intros Hv. induction d as [|[k' w] r IH]; cbn [zset]; intros Hd.
    - constructor; [exact Hv | constructor].
    - inversion Hd as [|? ? Hw Hr]; subst. destruct (Z.eqb k' k).
      + constructor; [exact Hv | exact Hr].
      + constructor; [exact Hw | apply IH; exact Hr].
  Qed.

  Lemma all_coeffs_todict (x : mv R) : allP x -> allP (todict x).
  Proof.
    unfold todict. assert (G : forall d : mv R, allP d -> allP x ->
      allP (fold_left (fun d kv => zset (fst kv) (snd kv) d) x d)).
    { induction x as [|[k v] r IH]; intros d Hd Hx; cbn [fold_left fst snd].
      - exact Hd.
      - inversion Hx as [|? ? Hv Hr]; subst. apply IH; [|exact Hr].
        apply all_coeffs_zset; assumption. }
    intros Hx. apply G; [constructor | exact Hx].
  Qed.

  Lemma all_coeffs_raw_involution g (x : mv R) : allP x -> allP (raw_involution O g x).
  Proof.
    intros Hx. unfold raw_involution. apply all_coeffs_todict.
    unfold all_coeffs in *. rewrite Forall_forall in *. intros kv Hin.
    apply in_map_iff in Hin. destruct Hin as [kv' [E Hin]]. subst kv. cbn [snd].
    destruct (involution_flips g (fst kv')); [apply P_neg|]; apply Hx; exact Hin.
  Qed.

  Lemma all_coeffs_gp A (x y : mv R) : allP x -> allP y -> allP (gp O A x y).
  Proof. intros. apply all_coeffs_canon_sort. apply all_coeffs_codegen_product; assumption. Qed.

  Lemma all_coeffs_ip A (x y : mv R) : allP x -> allP y -> allP (ip O A x y).
  Proof. intros. apply all_coeffs_canon_sort. apply all_coeffs_codegen_product; assumption. Qed.

  Lemma all_coeffs_reverse A (x : mv R) : allP x -> allP (reverse O A x).
  Proof. intros. apply all_coeffs_canon_sort. apply all_coeffs_raw_involution; assumption. Qed.
End AllCoeffs.

(* ================= 2 (continued) and 3: the target is a commutative ring ================= *)

Section Filtered.
  Context {R : Type} (OR : ops R).
  Variable S : Type.
  Variables (sO sI : S) (sadd smul ssub : S -> S -> S) (sopp : S -> S).
  Hypothesis Sth : ring_theory sO sI sadd smul ssub sopp (@eq S).
  Local Notation OS := (mkOps S sadd ssub smul sopp sO sI).
  Local Notation equiv := (Sparse.equiv sO sI sadd smul ssub sopp).
  Local Infix "==" := equiv (at level 70, no associativity).
  Variable h : R -> S.
  Hypothesis Hh : ops_hom OR OS h.
  Local Notation mh := (map_mv h).

  (* the zero test of the symbol class, and the invariant P under which it is sound for h:
     whatever tests falsy is sent to 0 *)
  Variable isz : R -> bool.
  Variable P : R -> Prop.
  Hypothesis Hisz : forall r, P r -> isz r = true -> h r = sO.
  Local Notation allP := (all_coeffs P).
  Local Notation F := (filter_nz isz).

  (* 2. dropping the coefficients that test falsy is invisible after applying h *)
  Theorem filter_nz_equiv (x : mv R) : NoDup (keys x) -> allP x -> mh (F x) == mh x.
  Proof.
    induction x as [|[k v] r IH]; intros Hx HP K.
    - reflexivity.
    - cbn [keys map fst] in Hx. inversion Hx as [|? ? Hk Hr]; subst.
      inversion HP as [|? ? Hv HPr]; subst. cbn [snd] in Hv.
      cbn [filter_nz filter snd]. fold (filter_nz isz r).
      destruct (isz v) eqn:Ez; cbn [negb].
      + rewrite (IH Hr HPr K). rewrite map_mv_cons, coeff_cons.
        destruct (Z.eqb k K) eqn:E; [|reflexivity].
        apply Z.eqb_eq in E. subst k. rewrite (Hisz v Hv Ez).
        apply coeff_notin. rewrite keys_map_mv. exact Hk.
      + rewrite !map_mv_cons, !coeff_cons. destruct (Z.eqb k K); [reflexivity | apply (IH Hr HPr K)].
  Qed.

  Hypothesis P_add : forall a b, P a -> P b -> P (o_add OR a b).
  Hypothesis P_mul : forall a b, P a -> P b -> P (o_mul OR a b).
  Hypothesis P_neg : forall a, P a -> P (o_neg OR a).

  (* one elementary product on the symbolic path (operands already filtered), evaluated *)
  Lemma filtered_product_equiv A sfun filt kout (a a' b b' : mv R) :
    NoDup (canon_keys A) ->
    NoDup (keys a) -> NoDup (keys a') -> NoDup (keys b) -> NoDup (keys b') ->
    allP a -> allP b ->
    mh a == mh a' -> mh b == mh b' ->
    mh (F (canon_sort A (codegen_product OR sfun filt kout a b)))
    == canon_sort A (codegen_product OS sfun filt kout (mh a') (mh b')).
  Proof.
    intros HA Ha Ha' Hb Hb' Pa Pb Ea Eb.
    eapply equiv_trans.
    - apply filter_nz_equiv.
      + apply NoDup_keys_canon_sort. exact HA.
      + apply all_coeffs_canon_sort. apply all_coeffs_codegen_product; assumption.
    - rewrite (nat_canon_sort h), (nat_codegen_product OR OS h Hh).
      apply (sorted_product_congr S sO sI sadd smul ssub sopp Sth);
        try (rewrite keys_map_mv; assumption); assumption.
  Qed.

  Lemma filtered_reverse_equiv A (x : mv R) :
    NoDup (canon_keys A) -> allP x ->
    mh (F (reverse OR A x)) == mh (reverse OR A x).
  Proof.
    intros HA Px. apply filter_nz_equiv.
    - apply NoDup_keys_canon_sort. exact HA.
    - apply all_coeffs_reverse; assumption.
  Qed.

  (* 3. C06.  The operands need no hypothesis for sw and proj (the outer product only ever sees
     canonically sorted operands); normsq multiplies x itself, so NoDup (keys x) is needed. *)
  Theorem C06_sw A (x y : mv R) :
    NoDup (canon_keys A) -> allP x -> allP y ->
    mh (sw_with OR F A x y) == sw OS A (mh x) (mh y).
  Proof.
    intros HA Px Py. unfold sw, sw_with, gp, raw_gp.
    rewrite <- (nat_reverse OR OS h Hh), <- (nat_codegen_product OR OS h Hh), <- (nat_canon_sort h).
    apply filtered_product_equiv; try assumption.
    - apply NoDup_keys_filter_nz. apply NoDup_keys_canon_sort. exact HA.
    - apply NoDup_keys_canon_sort. exact HA.
    - apply NoDup_keys_filter_nz. apply NoDup_keys_canon_sort. exact HA.
    - apply NoDup_keys_canon_sort. exact HA.
    - apply all_coeffs_filter_nz. apply all_coeffs_canon_sort.
      apply all_coeffs_codegen_product; assumption.
    - apply all_coeffs_filter_nz. apply all_coeffs_reverse; assumption.
    - apply filter_nz_equiv.
      + apply NoDup_keys_canon_sort. exact HA.
      + apply all_coeffs_canon_sort. apply all_coeffs_codegen_product; assumption.
    - apply filtered_reverse_equiv; assumption.
  Qed.

  Theorem C06_proj A (x y : mv R) :
    NoDup (canon_keys A) -> allP x -> allP y ->
    mh (proj_with OR F A x y) == proj OS A (mh x) (mh y).
  Proof.
    intros HA Px Py. unfold proj, proj_with, gp, raw_gp, ip, raw_ip.
    rewrite <- (nat_reverse OR OS h Hh), <- (nat_codegen_product OR OS h Hh), <- (nat_canon_sort h).
    apply filtered_product_equiv; try assumption.
    - apply NoDup_keys_filter_nz. apply NoDup_keys_canon_sort. exact HA.
    - apply NoDup_keys_canon_sort. exact HA.
    - apply NoDup_keys_filter_nz. apply NoDup_keys_canon_sort. exact HA.
    - apply NoDup_keys_canon_sort. exact HA.
    - apply all_coeffs_filter_nz. apply all_coeffs_canon_sort.
      apply all_coeffs_codegen_product; assumption.
    - apply all_coeffs_filter_nz. apply all_coeffs_reverse; assumption.
    - apply filter_nz_equiv.
      + apply NoDup_keys_canon_sort. exact HA.
      + apply all_coeffs_canon_sort. apply all_coeffs_codegen_product; assumption.
    - apply filtered_reverse_equiv; assumption.
  Qed.

  Theorem C06_normsq A (x : mv R) :
    NoDup (canon_keys A) -> NoDup (keys x) -> allP x ->
    mh (normsq_with OR F A x) == normsq OS A (mh x).
  Proof.
    intros HA Hx Px. unfold normsq, normsq_with, gp, raw_gp.
    rewrite <- (nat_reverse OR OS h Hh).
    apply filtered_product_equiv; try assumption.
    - apply NoDup_keys_filter_nz. apply NoDup_keys_canon_sort. exact HA.
    - apply NoDup_keys_canon_sort. exact HA.
    - apply all_coeffs_filter_nz. apply all_coeffs_reverse; assumption.
    - apply equiv_refl.
    - apply filtered_reverse_equiv; assumption.
  Qed.
End Filtered.

(* ---------- parts 2 and 3 as stated for a ring homomorphism h : R -> S whose zero test is sound
   for every coefficient (no invariant needed: P := True).  The ring laws of R are not used. ---------- *)

Section RingHom.
  Variable R : Type.
  Variables (rO rI : R) (radd rmul rsub : R -> R -> R) (ropp : R -> R).
  Variable S : Type.
  Variables (sO sI : S) (sadd smul ssub : S -> S -> S) (sopp : S -> S).
  Hypothesis Sth : ring_theory sO sI sadd smul ssub sopp (@eq S).
  Local Notation OR := (mkOps R radd rsub rmul ropp rO rI).
  Local Notation OS := (mkOps S sadd ssub smul sopp sO sI).
  Local Notation equiv := (Sparse.equiv sO sI sadd smul ssub sopp).
  Local Infix "==" := equiv (at level 70, no associativity).
  Variable h : R -> S.
  Hypothesis h_zero : h rO = sO.
  Hypothesis h_one : h rI = sI.
  Hypothesis h_add : forall a b, h (radd a b) = sadd (h a) (h b).
  Hypothesis h_mul : forall a b, h (rmul a b) = smul (h a) (h b).
  Hypothesis h_sub : forall a b, h (rsub a b) = ssub (h a) (h b).
  Hypothesis h_neg : forall a, h (ropp a) = sopp (h a).
  Variable isz : R -> bool.
  Hypothesis Hisz : forall r, isz r = true -> h r = sO.

  Let Hh : ops_hom OR OS h :=
    ring_hom_ops_hom rO rI radd rmul rsub ropp sO sI sadd smul ssub sopp h
                     h_zero h_one h_add h_mul h_sub h_neg.

  Theorem ring_filter_nz_equiv (x : mv R) :
    NoDup (keys x) -> map_mv h (filter_nz isz x) == map_mv h x.
  Proof.
    intros Hx.
    apply (filter_nz_equiv S sO sI sadd smul ssub sopp h isz (fun _ => True));
      [intros r _; apply Hisz | exact Hx | apply all_coeffs_True].
  Qed.

  Theorem ring_C06_sw A (x y : mv R) :
    NoDup (canon_keys A) ->
    map_mv h (sw_with OR (filter_nz isz) A x y) == sw OS A (map_mv h x) (map_mv h y).
  Proof.
    intros HA.
    apply (C06_sw OR S sO sI sadd smul ssub sopp Sth h Hh isz (fun _ => True)); auto using all_coeffs_True.
  Qed.

  Theorem ring_C06_proj A (x y : mv R) :
    NoDup (canon_keys A) ->
    map_mv h (proj_with OR (filter_nz isz) A x y) == proj OS A (map_mv h x) (map_mv h y).
  Proof.
    intros HA.
    apply (C06_proj OR S sO sI sadd smul ssub sopp Sth h Hh isz (fun _ => True)); auto using all_coeffs_True.
  Qed.

  Theorem ring_C06_normsq A (x : mv R) :
    NoDup (canon_keys A) -> NoDup (keys x) ->
    map_mv h (normsq_with OR (filter_nz isz) A x) == normsq OS A (map_mv h x).
  Proof.
    intros HA Hx.
    apply (C06_normsq OR S sO sI sadd smul ssub sopp Sth h Hh isz (fun _ => True)); auto using all_coeffs_True.
  Qed.
End RingHom.

(* ---------- C13: the evaluated result does not depend on the symbol class used to generate it ----------
   Two symbol classes R1, R2 with evaluations h1, h2 into the same coefficients S: if the operands
   evaluate to the same multivectors, so do the results of the generated operators (literally). *)

Section SymbolClass.
  Context {R1 R2 S : Type} (O1 : ops R1) (O2 : ops R2) (OS : ops S) (h1 : R1 -> S) (h2 : R2 -> S).
  Hypothesis H1 : ops_hom O1 OS h1.
  Hypothesis H2 : ops_hom O2 OS h2.

  Theorem C13_codegen_product sfun filt kout x1 y1 x2 y2 :
    map_mv h1 x1 = map_mv h2 x2 -> map_mv h1 y1 = map_mv h2 y2 ->
    map_mv h1 (codegen_product O1 sfun filt kout x1 y1)
    = map_mv h2 (codegen_product O2 sfun filt kout x2 y2).
  Proof.
    intros Ex Ey. rewrite (nat_codegen_product O1 OS h1 H1), (nat_codegen_product O2 OS h2 H2), Ex, Ey.
    reflexivity.
  Qed.

  Theorem C13_gp A x1 y1 x2 y2 :
    map_mv h1 x1 = map_mv h2 x2 -> map_mv h1 y1 = map_mv h2 y2 ->
    map_mv h1 (gp O1 A x1 y1) = map_mv h2 (gp O2 A x2 y2).
  Proof.
    intros Ex Ey. rewrite (nat_gp O1 OS h1 H1), (nat_gp O2 OS h2 H2), Ex, Ey. reflexivity.
  Qed.

  Theorem C13_sw A x1 y1 x2 y2 :
    map_mv h1 x1 = map_mv h2 x2 -> map_mv h1 y1 = map_mv h2 y2 ->
    map_mv h1 (sw O1 A x1 y1) = map_mv h2 (sw O2 A x2 y2).
  Proof.
    intros Ex Ey. rewrite (nat_sw O1 OS h1 H1), (nat_sw O2 OS h2 H2), Ex, Ey. reflexivity.
  Qed.

  Theorem C13_proj A x1 y1 x2 y2 :
    map_mv h1 x1 = map_mv h2 x2 -> map_mv h1 y1 = map_mv h2 y2 ->
    map_mv h1 (proj O1 A x1 y1) = map_mv h2 (proj O2 A x2 y2).
  Proof.
    intros Ex Ey. rewrite (nat_proj O1 OS h1 H1), (nat_proj O2 OS h2 H2), Ex, Ey. reflexivity.
  Qed.

  Theorem C13_normsq A x1 x2 :
    map_mv h1 x1 = map_mv h2 x2 ->
    map_mv h1 (normsq O1 A x1) = map_mv h2 (normsq O2 A x2).
  Proof.
    intros Ex. rewrite (nat_normsq O1 OS h1 H1), (nat_normsq O2 OS h2 H2), Ex. reflexivity.
  Qed.
End SymbolClass.

(* ================= 4a. C16: array-valued coefficients ================= *)

(* coefficients indexed by I (a numpy array of any shape: I = the index tuples) with the pointwise
   operations of numpy broadcasting on equal shapes.  No ring law and no extensionality is needed:
   indexing preserves the operations by computation. *)
Definition pw_ops (I : Type) {R : Type} (O : ops R) : ops (I -> R) :=
  mkOps (I -> R)
        (fun f g i => o_add O (f i) (g i)) (fun f g i => o_sub O (f i) (g i))
        (fun f g i => o_mul O (f i) (g i)) (fun f i => o_neg O (f i))
        (fun _ => o_zero O) (fun _ => o_one O).

Lemma index_hom {I R : Type} (O : ops R) (i : I) : ops_hom (pw_ops I O) O (fun f => f i).
Proof. constructor; reflexivity. Qed.

(* broadcasting a scalar coefficient to a constant array is a homomorphism too *)
Lemma const_hom {I R : Type} (O : ops R) : ops_hom O (pw_ops I O) (fun r _ => r).
Proof. constructor; reflexivity. Qed.

Section Index.
  Context {I R : Type} (O : ops R) (i : I).
  Local Notation Opw := (pw_ops I O).
  Local Notation "x @@" := (map_mv (fun f : I -> R => f i) x) (at level 9, format "x @@").
  Local Notation Hi := (index_hom O i).

  Theorem index_keys (x : mv (I -> R)) : keys (x@@) = keys x.
  Proof. apply keys_map_mv. Qed.
  Theorem index_coeff K (x : mv (I -> R)) : coeff O K (x@@) = coeff Opw K x i.
  Proof. apply (coeff_map_mv Opw O _ Hi). Qed.
  Theorem index_commutes_codegen_product sfun filt kout x y :
    (codegen_product Opw sfun filt kout x y)@@ = codegen_product O sfun filt kout (x@@) (y@@).
  Proof. apply (nat_codegen_product Opw O _ Hi). Qed.
  Theorem index_commutes_canon_sort A (d : mv (I -> R)) : (canon_sort A d)@@ = canon_sort A (d@@).
  Proof. apply nat_canon_sort. Qed.
  Theorem index_commutes_gp A x y : (gp Opw A x y)@@ = gp O A (x@@) (y@@).
  Proof. apply (nat_gp Opw O _ Hi). Qed.
  Theorem index_commutes_op A x y : (op Opw A x y)@@ = op O A (x@@) (y@@).
  Proof. apply (nat_op Opw O _ Hi). Qed.
  Theorem index_commutes_ip A x y : (ip Opw A x y)@@ = ip O A (x@@) (y@@).
  Proof. apply (nat_ip Opw O _ Hi). Qed.
  Theorem index_commutes_lc A x y : (lc Opw A x y)@@ = lc O A (x@@) (y@@).
  Proof. apply (nat_lc Opw O _ Hi). Qed.
  Theorem index_commutes_rc A x y : (rc Opw A x y)@@ = rc O A (x@@) (y@@).
  Proof. apply (nat_rc Opw O _ Hi). Qed.
  Theorem index_commutes_sp A x y : (sp Opw A x y)@@ = sp O A (x@@) (y@@).
  Proof. apply (nat_sp Opw O _ Hi). Qed.
  Theorem index_commutes_cp A x y : (cp Opw A x y)@@ = cp O A (x@@) (y@@).
  Proof. apply (nat_cp Opw O _ Hi). Qed.
  Theorem index_commutes_acp A x y : (acp Opw A x y)@@ = acp O A (x@@) (y@@).
  Proof. apply (nat_acp Opw O _ Hi). Qed.
  Theorem index_commutes_rp A x y : (rp Opw A x y)@@ = rp O A (x@@) (y@@).
  Proof. apply (nat_rp Opw O _ Hi). Qed.
  Theorem index_commutes_add A x y : (add Opw A x y)@@ = add O A (x@@) (y@@).
  Proof. apply (nat_add Opw O _ Hi). Qed.
  Theorem index_commutes_sub A x y : (sub Opw A x y)@@ = sub O A (x@@) (y@@).
  Proof. apply (nat_sub Opw O _ Hi). Qed.
  Theorem index_commutes_neg A x : (neg Opw A x)@@ = neg O A (x@@).
  Proof. apply (nat_neg Opw O _ Hi). Qed.
  Theorem index_commutes_reverse A x : (reverse Opw A x)@@ = reverse O A (x@@).
  Proof. apply (nat_reverse Opw O _ Hi). Qed.
  Theorem index_commutes_involute A x : (involute Opw A x)@@ = involute O A (x@@).
  Proof. apply (nat_involute Opw O _ Hi). Qed.
  Theorem index_commutes_conjugate A x : (conjugate Opw A x)@@ = conjugate O A (x@@).
  Proof. apply (nat_conjugate Opw O _ Hi). Qed.
  Theorem index_commutes_hodge A x : (hodge Opw A x)@@ = hodge O A (x@@).
  Proof. apply (nat_hodge Opw O _ Hi). Qed.
  Theorem index_commutes_unhodge A x : (unhodge Opw A x)@@ = unhodge O A (x@@).
  Proof. apply (nat_unhodge Opw O _ Hi). Qed.
  Theorem index_commutes_unpolarity A x : (unpolarity Opw A x)@@ = unpolarity O A (x@@).
  Proof. apply (nat_unpolarity Opw O _ Hi). Qed.
  Theorem index_commutes_pss_mv A : (pss_mv Opw A)@@ = pss_mv O A.
  Proof. apply (nat_pss_mv Opw O _ Hi). Qed.
  Theorem index_commutes_polarity A x :
    map_res (fun r => r@@) (polarity Opw A x) = polarity O A (x@@).
  Proof. apply (nat_polarity Opw O _ Hi). Qed.
  Theorem index_commutes_dual A k x : map_res (fun r => r@@) (dual Opw A k x) = dual O A k (x@@).
  Proof. apply (nat_dual Opw O _ Hi). Qed.
  Theorem index_commutes_undual A k x : map_res (fun r => r@@) (undual Opw A k x) = undual O A k (x@@).
  Proof. apply (nat_undual Opw O _ Hi). Qed.
  Theorem index_commutes_grade_sel A g x :
    map_res (fun r => r@@) (grade_sel Opw A g x) = grade_sel O A g (x@@).
  Proof. apply (nat_grade_sel Opw O _ Hi). Qed.
  Theorem index_commutes_sw A x y : (sw Opw A x y)@@ = sw O A (x@@) (y@@).
  Proof. apply (nat_sw Opw O _ Hi). Qed.
  Theorem index_commutes_proj A x y : (proj Opw A x y)@@ = proj O A (x@@) (y@@).
  Proof. apply (nat_proj Opw O _ Hi). Qed.
  Theorem index_commutes_normsq A x : (normsq Opw A x)@@ = normsq O A (x@@).
  Proof. apply (nat_normsq Opw O _ Hi). Qed.
End Index.

(* ================= 4b. C12: substitution into kingdon's Polynomial class ================= *)

(* the operations of kingdon.polynomial.Polynomial as the generated code uses them.  [poly] with
   these operations is NOT literally a ring (e.g. padd p [] = p but the zero polynomial has two
   representations); part 1 needs only that evaluation preserves the operations. *)
Definition Pops : ops poly := mkOps poly padd psub pmul pneg (P_of_Z 0) (P_of_Z 1).

(* `not coefficient`, the test of OperatorDict.filter (simp_func is the identity on Polynomial) *)
Definition pzero (p : poly) : bool := negb (pbool p).

(* the operators preserve the representation invariant of the polynomials *)
Lemma Inv_Pops_add a b : Inv a -> Inv b -> Inv (o_add Pops a b).
Proof. apply Inv_padd. Qed.
Lemma Inv_Pops_mul a b : Inv a -> Inv b -> Inv (o_mul Pops a b).
Proof. intros Ha Hb. apply InvS_Inv. apply InvS_pmul; assumption. Qed.
Lemma Inv_Pops_neg a : Inv a -> Inv (o_neg Pops a).
Proof. apply Inv_pneg. Qed.
Lemma Inv_Pops_sub a b : Inv a -> Inv b -> Inv (o_sub Pops a b).
Proof. apply Inv_psub. Qed.

Theorem Inv_codegen_product_poly sfun filt kout (X Y : mv poly) :
  all_coeffs Inv X -> all_coeffs Inv Y -> all_coeffs Inv (codegen_product Pops sfun filt kout X Y).
Proof. apply all_coeffs_codegen_product; [apply Inv_Pops_add | apply Inv_Pops_mul | apply Inv_Pops_neg]. Qed.
Theorem Inv_gp_poly A (X Y : mv poly) :
  all_coeffs Inv X -> all_coeffs Inv Y -> all_coeffs Inv (gp Pops A X Y).
Proof. apply all_coeffs_gp; [apply Inv_Pops_add | apply Inv_Pops_mul | apply Inv_Pops_neg]. Qed.
Theorem Inv_ip_poly A (X Y : mv poly) :
  all_coeffs Inv X -> all_coeffs Inv Y -> all_coeffs Inv (ip Pops A X Y).
Proof. apply all_coeffs_ip; [apply Inv_Pops_add | apply Inv_Pops_mul | apply Inv_Pops_neg]. Qed.
Theorem Inv_reverse_poly A (X : mv poly) : all_coeffs Inv X -> all_coeffs Inv (reverse Pops A X).
Proof. apply all_coeffs_reverse. apply Inv_Pops_neg. Qed.
Theorem Inv_filter_poly (X : mv poly) : all_coeffs Inv X -> all_coeffs Inv (filter_nz pzero X).
Proof. apply all_coeffs_filter_nz. Qed.

(* a fully symbolic multivector (algebra.multivector(name=..., keys=...)): one fresh variable per key *)
Lemma Inv_symbolic_mv (kvs : list (Z * nat)) :
  all_coeffs Inv (map (fun kv => (fst kv, P_of_var (snd kv))) kvs).
Proof.
  apply Forall_forall. intros kv Hin. apply in_map_iff in Hin. destruct Hin as [kv' [E _]].
  subst kv. cbn [snd]. apply InvS_Inv. apply InvS_P_of_var.
Qed.

Section PolySubst.
  Variable R : Type.
  Variables (R0 R1 : R) (Radd Rmul Rsub : R -> R -> R) (Ropp : R -> R).
  Hypothesis Rth : ring_theory R0 R1 Radd Rmul Rsub Ropp (@eq R).
  Local Notation O := (mkOps R Radd Rsub Rmul Ropp R0 R1).
  Local Notation equiv := (Sparse.equiv R0 R1 Radd Rmul Rsub Ropp).
  Local Infix "==" := equiv (at level 70, no associativity).
  Variable rho : nat -> R.       (* the substituted values *)
  Local Notation ev := (peval R R0 R1 Radd Rmul Ropp rho).
  Local Notation "X [rho]" := (map_mv ev X) (at level 9, format "X [rho]").

  (* evaluation preserves the six operations *)
  Theorem peval_hom : ops_hom Pops O ev.
  Proof.
    constructor; cbn [Pops o_zero o_one o_add o_sub o_mul o_neg].
    - rewrite (peval_P_of_Z R R0 R1 Radd Rmul Rsub Ropp Rth). apply (zinj_0 R R0 R1 Radd Rmul Rsub Ropp Rth).
    - rewrite (peval_P_of_Z R R0 R1 Radd Rmul Rsub Ropp Rth). apply (zinj_1 R R0 R1 Radd Rmul Rsub Ropp Rth).
    - apply (peval_padd R R0 R1 Radd Rmul Rsub Ropp Rth).
    - apply (peval_psub R R0 R1 Radd Rmul Rsub Ropp Rth).
    - apply (peval_pmul R R0 R1 Radd Rmul Rsub Ropp Rth).
    - apply (peval_pneg R R0 R1 Radd Rmul Rsub Ropp Rth).
  Qed.
  Local Notation He := peval_hom.

  (* the zero test is exact on well-formed polynomials, hence sound for every substitution *)
  Theorem pzero_sound p : Inv p -> pzero p = true -> ev p = R0.
  Proof.
    intros Hp Hz. unfold pzero in Hz. apply negb_true_iff in Hz.
    apply (fzero_peval R R0 R1 Radd Rmul Rsub Ropp Rth). apply (pbool_exact p Hp). exact Hz.
  Qed.

  (* C12: combine symbolic operands, then substitute  =  substitute, then combine (literally) *)
  Theorem C12_subst_keys (X : mv poly) : keys X[rho] = keys X.
  Proof. apply keys_map_mv. Qed.
  Theorem C12_subst_coeff K (X : mv poly) : coeff O K X[rho] = ev (coeff Pops K X).
  Proof. apply (coeff_map_mv Pops O _ He). Qed.
  Theorem C12_subst_codegen_product sfun filt kout X Y :
    (codegen_product Pops sfun filt kout X Y)[rho] = codegen_product O sfun filt kout X[rho] Y[rho].
  Proof. apply (nat_codegen_product Pops O _ He). Qed.
  Theorem C12_subst_gp A X Y : (gp Pops A X Y)[rho] = gp O A X[rho] Y[rho].
  Proof. apply (nat_gp Pops O _ He). Qed.
  Theorem C12_subst_op A X Y : (op Pops A X Y)[rho] = op O A X[rho] Y[rho].
  Proof. apply (nat_op Pops O _ He). Qed.
  Theorem C12_subst_ip A X Y : (ip Pops A X Y)[rho] = ip O A X[rho] Y[rho].
  Proof. apply (nat_ip Pops O _ He). Qed.
  Theorem C12_subst_lc A X Y : (lc Pops A X Y)[rho] = lc O A X[rho] Y[rho].
  Proof. apply (nat_lc Pops O _ He). Qed.
  Theorem C12_subst_rc A X Y : (rc Pops A X Y)[rho] = rc O A X[rho] Y[rho].
  Proof. apply (nat_rc Pops O _ He). Qed.
  Theorem C12_subst_sp A X Y : (sp Pops A X Y)[rho] = sp O A X[rho] Y[rho].
  Proof. apply (nat_sp Pops O _ He). Qed.
  Theorem C12_subst_cp A X Y : (cp Pops A X Y)[rho] = cp O A X[rho] Y[rho].
  Proof. apply (nat_cp Pops O _ He). Qed.
  Theorem C12_subst_acp A X Y : (acp Pops A X Y)[rho] = acp O A X[rho] Y[rho].
  Proof. apply (nat_acp Pops O _ He). Qed.
  Theorem C12_subst_rp A X Y : (rp Pops A X Y)[rho] = rp O A X[rho] Y[rho].
  Proof. apply (nat_rp Pops O _ He). Qed.
  Theorem C12_subst_add A X Y : (add Pops A X Y)[rho] = add O A X[rho] Y[rho].
  Proof. apply (nat_add Pops O _ He). Qed.
  Theorem C12_subst_sub A X Y : (sub Pops A X Y)[rho] = sub O A X[rho] Y[rho].
  Proof. apply (nat_sub Pops O _ He). Qed.
  Theorem C12_subst_neg A X : (neg Pops A X)[rho] = neg O A X[rho].
  Proof. apply (nat_neg Pops O _ He). Qed.
  Theorem C12_subst_reverse A X : (reverse Pops A X)[rho] = reverse O A X[rho].
  Proof. apply (nat_reverse Pops O _ He). Qed.
  Theorem C12_subst_involute A X : (involute Pops A X)[rho] = involute O A X[rho].
  Proof. apply (nat_involute Pops O _ He). Qed.
  Theorem C12_subst_conjugate A X : (conjugate Pops A X)[rho] = conjugate O A X[rho].
  Proof. apply (nat_conjugate Pops O _ He). Qed.
  Theorem C12_subst_hodge A X : (hodge Pops A X)[rho] = hodge O A X[rho].
  Proof. apply (nat_hodge Pops O _ He). Qed.
  Theorem C12_subst_unhodge A X : (unhodge Pops A X)[rho] = unhodge O A X[rho].
  Proof. apply (nat_unhodge Pops O _ He). Qed.
  Theorem C12_subst_unpolarity A X : (unpolarity Pops A X)[rho] = unpolarity O A X[rho].
  Proof. apply (nat_unpolarity Pops O _ He). Qed.
  Theorem C12_subst_pss_mv A : (pss_mv Pops A)[rho] = pss_mv O A.
  Proof. apply (nat_pss_mv Pops O _ He). Qed.
  Theorem C12_subst_polarity A X :
    map_res (fun r => r[rho]) (polarity Pops A X) = polarity O A X[rho].
  Proof. apply (nat_polarity Pops O _ He). Qed.
  Theorem C12_subst_dual A k X : map_res (fun r => r[rho]) (dual Pops A k X) = dual O A k X[rho].
  Proof. apply (nat_dual Pops O _ He). Qed.
  Theorem C12_subst_undual A k X : map_res (fun r => r[rho]) (undual Pops A k X) = undual O A k X[rho].
  Proof. apply (nat_undual Pops O _ He). Qed.
  Theorem C12_subst_grade_sel A g X :
    map_res (fun r => r[rho]) (grade_sel Pops A g X) = grade_sel O A g X[rho].
  Proof. apply (nat_grade_sel Pops O _ He). Qed.
  Theorem C12_subst_sw A X Y : (sw Pops A X Y)[rho] = sw O A X[rho] Y[rho].
  Proof. apply (nat_sw Pops O _ He). Qed.
  Theorem C12_subst_proj A X Y : (proj Pops A X Y)[rho] = proj O A X[rho] Y[rho].
  Proof. apply (nat_proj Pops O _ He). Qed.
  Theorem C12_subst_normsq A X : (normsq Pops A X)[rho] = normsq O A X[rho].
  Proof. apply (nat_normsq Pops O _ He). Qed.

  (* the filter of the symbolic path only drops coefficients that vanish identically *)
  Theorem filter_poly_equiv (X : mv poly) :
    NoDup (keys X) -> all_coeffs Inv X -> (filter_nz pzero X)[rho] == X[rho].
  Proof.
    intros HX HI. apply (filter_nz_equiv R R0 R1 Radd Rmul Rsub Ropp ev pzero Inv);
      [exact pzero_sound | exact HX | exact HI].
  Qed.

  (* C06 for the Polynomial class: the composites as generated on the symbolic path (a filter by
     `bool(coefficient)` after every elementary operator), evaluated at ANY values, are the
     compositions of the elementary operators on the values *)
  Theorem C06_sw_poly A (X Y : mv poly) :
    NoDup (canon_keys A) -> all_coeffs Inv X -> all_coeffs Inv Y ->
    (sw_with Pops (filter_nz pzero) A X Y)[rho] == sw O A X[rho] Y[rho].
  Proof.
    apply (C06_sw Pops R R0 R1 Radd Rmul Rsub Ropp Rth ev He pzero Inv pzero_sound
                  Inv_Pops_add Inv_Pops_mul Inv_Pops_neg).
  Qed.

  Theorem C06_proj_poly A (X Y : mv poly) :
    NoDup (canon_keys A) -> all_coeffs Inv X -> all_coeffs Inv Y ->
    (proj_with Pops (filter_nz pzero) A X Y)[rho] == proj O A X[rho] Y[rho].
  Proof.
    apply (C06_proj Pops R R0 R1 Radd Rmul Rsub Ropp Rth ev He pzero Inv pzero_sound
                    Inv_Pops_add Inv_Pops_mul Inv_Pops_neg).
  Qed.

  Theorem C06_normsq_poly A (X : mv poly) :
    NoDup (canon_keys A) -> NoDup (keys X) -> all_coeffs Inv X ->
    (normsq_with Pops (filter_nz pzero) A X)[rho] == normsq O A X[rho].
  Proof.
    apply (C06_normsq Pops R R0 R1 Radd Rmul Rsub Ropp Rth ev He pzero Inv pzero_sound
                      Inv_Pops_add Inv_Pops_mul Inv_Pops_neg).
  Qed.

  (* ... and, unfolded: a >> b, a @ b, a.normsq() generated symbolically then called with numbers
     are  (a*b)*~a,  (a|b)*~b,  a*~a  of the numbers *)
  Corollary C06_sw_poly_unfolded A (X Y : mv poly) :
    NoDup (canon_keys A) -> all_coeffs Inv X -> all_coeffs Inv Y ->
    (sw_with Pops (filter_nz pzero) A X Y)[rho]
    == gp O A (gp O A X[rho] Y[rho]) (reverse O A X[rho]).
  Proof. apply C06_sw_poly. Qed.

  Corollary C06_proj_poly_unfolded A (X Y : mv poly) :
    NoDup (canon_keys A) -> all_coeffs Inv X -> all_coeffs Inv Y ->
    (proj_with Pops (filter_nz pzero) A X Y)[rho]
    == gp O A (ip O A X[rho] Y[rho]) (reverse O A Y[rho]).
  Proof. apply C06_proj_poly. Qed.

  Corollary C06_normsq_poly_unfolded A (X : mv poly) :
    NoDup (canon_keys A) -> NoDup (keys X) -> all_coeffs Inv X ->
    (normsq_with Pops (filter_nz pzero) A X)[rho] == gp O A X[rho] (reverse O A X[rho]).
  Proof. apply C06_normsq_poly. Qed.
End PolySubst.

(* ================= the stored keys of the filtered composites ================= *)
(* The generated key set depends monotonically on the key sets of the operands, so the symbolic
   pre-simplification can only make the generated function SMALLER: its keys are among those of the
   unfiltered composite (and, by C06, the coefficients it omits evaluate to 0 everywhere). *)

Section KeysMono.
  Context {R : Type} (O : ops R).

  Lemma in_keys_exists K (x : mv R) : In K (keys x) <-> exists v, In (K, v) x.
  Proof.
    unfold keys. rewrite in_map_iff. split.
    - intros [[k v] [E H]]. cbn [fst] in E. subst k. exists v. exact H.
    - intros [v H]. exists (K, v). split; [reflexivity | exact H].
  Qed.

  Lemma keys_codegen_product_mono sfun filt kout (x x' y y' : mv R) :
    incl (keys x) (keys x') -> incl (keys y) (keys y') ->
    incl (keys (codegen_product O sfun filt kout x y)) (keys (codegen_product O sfun filt kout x' y')).
  Proof.
    destruct O as [oa os om on oz oo]. intros Hx Hy K.
    rewrite !(product_keys R oz oo oa om os on).
    intros [kx [vx [ky [vy [H1 [H2 H3]]]]]].
    assert (Hkx : In kx (keys x')) by (apply Hx; apply in_keys_exists; exists vx; exact H1).
    assert (Hky : In ky (keys y')) by (apply Hy; apply in_keys_exists; exists vy; exact H2).
    apply in_keys_exists in Hkx. apply in_keys_exists in Hky.
    destruct Hkx as [vx' Hx']. destruct Hky as [vy' Hy'].
    exists kx, vx', ky, vy'. split; [exact Hx' | split; [exact Hy' | exact H3]].
  Qed.

  Lemma keys_canon_sort_mono A (d d' : mv R) :
    incl (keys d) (keys d') -> incl (keys (canon_sort A d)) (keys (canon_sort A d')).
  Proof.
    intros Hd K. rewrite !in_keys_canon_sort. intros [H1 H2]. split; [exact H1 | apply Hd; exact H2].
  Qed.

  Lemma in_keys_raw_involution g (x : mv R) K : In K (keys (raw_involution O g x)) <-> In K (keys x).
  Proof.
    unfold raw_involution. rewrite in_keys_todict.
    rewrite (keys_map_val R (fun k v => if involution_flips g k then o_neg O v else v)). reflexivity.
  Qed.

  Lemma keys_gp_mono A (x x' y y' : mv R) :
    incl (keys x) (keys x') -> incl (keys y) (keys y') ->
    incl (keys (gp O A x y)) (keys (gp O A x' y')).
  Proof. intros. apply keys_canon_sort_mono. apply keys_codegen_product_mono; assumption. Qed.

  Lemma keys_ip_mono A (x x' y y' : mv R) :
    incl (keys x) (keys x') -> incl (keys y) (keys y') ->
    incl (keys (ip O A x y)) (keys (ip O A x' y')).
  Proof. intros. apply keys_canon_sort_mono. apply keys_codegen_product_mono; assumption. Qed.

  Variable isz : R -> bool.
  Local Notation F := (filter_nz isz).

  Theorem keys_sw_with_incl A (x y : mv R) : incl (keys (sw_with O F A x y)) (keys (sw O A x y)).
  Proof.
    unfold sw, sw_with. eapply incl_tran; [apply keys_filter_nz_incl|].
    apply keys_gp_mono; apply keys_filter_nz_incl.
  Qed.

  Theorem keys_proj_with_incl A (x y : mv R) : incl (keys (proj_with O F A x y)) (keys (proj O A x y)).
  Proof.
    unfold proj, proj_with. eapply incl_tran; [apply keys_filter_nz_incl|].
    apply keys_gp_mono; apply keys_filter_nz_incl.
  Qed.

  Theorem keys_normsq_with_incl A (x : mv R) : incl (keys (normsq_with O F A x)) (keys (normsq O A x)).
  Proof.
    unfold normsq, normsq_with. eapply incl_tran; [apply keys_filter_nz_incl|].
    apply keys_gp_mono; [apply incl_refl | apply keys_filter_nz_incl].
  Qed.

  (* the results are well-formed multivectors of the algebra: distinct canonical keys *)
  Theorem NoDup_keys_sw_with A (x y : mv R) : NoDup (canon_keys A) -> NoDup (keys (sw_with O F A x y)).
  Proof. intros HA. apply NoDup_keys_filter_nz. apply NoDup_keys_canon_sort. exact HA. Qed.
  Theorem NoDup_keys_proj_with A (x y : mv R) : NoDup (canon_keys A) -> NoDup (keys (proj_with O F A x y)).
  Proof. intros HA. apply NoDup_keys_filter_nz. apply NoDup_keys_canon_sort. exact HA. Qed.
  Theorem NoDup_keys_normsq_with A (x : mv R) : NoDup (canon_keys A) -> NoDup (keys (normsq_with O F A x)).
  Proof. intros HA. apply NoDup_keys_filter_nz. apply NoDup_keys_canon_sort. exact HA. Qed.

  Theorem keys_sw_with_canon A (x y : mv R) : incl (keys (sw_with O F A x y)) (canon_keys A).
  Proof. eapply incl_tran; [apply keys_filter_nz_incl | apply keys_canon_sort_incl]. Qed.
  Theorem keys_proj_with_canon A (x y : mv R) : incl (keys (proj_with O F A x y)) (canon_keys A).
  Proof. eapply incl_tran; [apply keys_filter_nz_incl | apply keys_canon_sort_incl]. Qed.
  Theorem keys_normsq_with_canon A (x : mv R) : incl (keys (normsq_with O F A x)) (canon_keys A).
  Proof. eapply incl_tran; [apply keys_filter_nz_incl | apply keys_canon_sort_incl]. Qed.
End KeysMono.

(* ================= relative homomorphisms: h preserves the operations on a closed subset ================= *)
(* Evaluating a RationalPolynomial is only a homomorphism where the denominators stay invertible.
   A map that preserves the operations on a subset Q closed under them is handled by restricting the
   source to the subtype {r | Q r}: both the inclusion and the restriction of h are homomorphisms in
   the sense of part 1, so every operator that is natural for ALL homomorphisms is natural for h on
   operands whose coefficients satisfy Q. *)

Record ops_closed {R : Type} (OR : ops R) (Q : R -> Prop) : Prop := mkClosed {
  cl_zero : Q (o_zero OR);
  cl_one : Q (o_one OR);
  cl_add : forall a b, Q a -> Q b -> Q (o_add OR a b);
  cl_sub : forall a b, Q a -> Q b -> Q (o_sub OR a b);
  cl_mul : forall a b, Q a -> Q b -> Q (o_mul OR a b);
  cl_neg : forall a, Q a -> Q (o_neg OR a);
}.

Record ops_hom_on {R S : Type} (OR : ops R) (OS : ops S) (h : R -> S) (Q : R -> Prop) : Prop := mkHomOn {
  homon_zero : h (o_zero OR) = o_zero OS;
  homon_one : h (o_one OR) = o_one OS;
  homon_add : forall a b, Q a -> Q b -> h (o_add OR a b) = o_add OS (h a) (h b);
  homon_sub : forall a b, Q a -> Q b -> h (o_sub OR a b) = o_sub OS (h a) (h b);
  homon_mul : forall a b, Q a -> Q b -> h (o_mul OR a b) = o_mul OS (h a) (h b);
  homon_neg : forall a, Q a -> h (o_neg OR a) = o_neg OS (h a);
}.

Lemma ops_hom_hom_on {R S} (OR : ops R) (OS : ops S) h Q : ops_hom OR OS h -> ops_hom_on OR OS h Q.
Proof. intros [h0 h1 ha hs hm hn]. constructor; auto. Qed.

(* operator families (one definition for every coefficient type) that commute with every homomorphism *)
Definition natural2 (f : forall T, ops T -> alg -> mv T -> mv T -> mv T) : Prop :=
  forall (T1 T2 : Type) (O1 : ops T1) (O2 : ops T2) (g : T1 -> T2), ops_hom O1 O2 g ->
  forall A x y, map_mv g (f T1 O1 A x y) = f T2 O2 A (map_mv g x) (map_mv g y).
Definition natural1 (f : forall T, ops T -> alg -> mv T -> mv T) : Prop :=
  forall (T1 T2 : Type) (O1 : ops T1) (O2 : ops T2) (g : T1 -> T2), ops_hom O1 O2 g ->
  forall A x, map_mv g (f T1 O1 A x) = f T2 O2 A (map_mv g x).
Definition natural1r (f : forall T, ops T -> alg -> mv T -> res (mv T)) : Prop :=
  forall (T1 T2 : Type) (O1 : ops T1) (O2 : ops T2) (g : T1 -> T2), ops_hom O1 O2 g ->
  forall A x, map_res (map_mv g) (f T1 O1 A x) = f T2 O2 A (map_mv g x).

Lemma natural_gp : natural2 (@gp). Proof. intros T1 T2 O1 O2 g Hg. apply nat_gp, Hg. Qed.
Lemma natural_op : natural2 (@op). Proof. intros T1 T2 O1 O2 g Hg. apply nat_op, Hg. Qed.
Lemma natural_ip : natural2 (@ip). Proof. intros T1 T2 O1 O2 g Hg. apply nat_ip, Hg. Qed.
Lemma natural_lc : natural2 (@lc). Proof. intros T1 T2 O1 O2 g Hg. apply nat_lc, Hg. Qed.
Lemma natural_rc : natural2 (@rc). Proof. intros T1 T2 O1 O2 g Hg. apply nat_rc, Hg. Qed.
Lemma natural_sp : natural2 (@sp). Proof. intros T1 T2 O1 O2 g Hg. apply nat_sp, Hg. Qed.
Lemma natural_cp : natural2 (@cp). Proof. intros T1 T2 O1 O2 g Hg. apply nat_cp, Hg. Qed.
Lemma natural_acp : natural2 (@acp). Proof. intros T1 T2 O1 O2 g Hg. apply nat_acp, Hg. Qed.
Lemma natural_rp : natural2 (@rp). Proof. intros T1 T2 O1 O2 g Hg. apply nat_rp, Hg. Qed.
Lemma natural_add : natural2 (@add). Proof. intros T1 T2 O1 O2 g Hg. apply nat_add, Hg. Qed.
Lemma natural_sub : natural2 (@sub). Proof. intros T1 T2 O1 O2 g Hg. apply nat_sub, Hg. Qed.
Lemma natural_sw : natural2 (@sw). Proof. intros T1 T2 O1 O2 g Hg. apply nat_sw, Hg. Qed.
Lemma natural_proj : natural2 (@proj). Proof. intros T1 T2 O1 O2 g Hg. apply nat_proj, Hg. Qed.
Lemma natural_codegen_product sfun filt kout :
  natural2 (fun T O (_ : alg) => @codegen_product T O sfun filt kout).
Proof. intros T1 T2 O1 O2 g Hg _. apply nat_codegen_product, Hg. Qed.
Lemma natural_neg : natural1 (@neg). Proof. intros T1 T2 O1 O2 g Hg. apply nat_neg, Hg. Qed.
Lemma natural_reverse : natural1 (@reverse). Proof. intros T1 T2 O1 O2 g Hg. apply nat_reverse, Hg. Qed.
Lemma natural_involute : natural1 (@involute). Proof. intros T1 T2 O1 O2 g Hg. apply nat_involute, Hg. Qed.
Lemma natural_conjugate : natural1 (@conjugate). Proof. intros T1 T2 O1 O2 g Hg. apply nat_conjugate, Hg. Qed.
Lemma natural_hodge : natural1 (@hodge). Proof. intros T1 T2 O1 O2 g Hg. apply nat_hodge, Hg. Qed.
Lemma natural_unhodge : natural1 (@unhodge). Proof. intros T1 T2 O1 O2 g Hg. apply nat_unhodge, Hg. Qed.
Lemma natural_unpolarity : natural1 (@unpolarity). Proof. intros T1 T2 O1 O2 g Hg. apply nat_unpolarity, Hg. Qed.
Lemma natural_normsq : natural1 (@normsq). Proof. intros T1 T2 O1 O2 g Hg. apply nat_normsq, Hg. Qed.
Lemma natural_polarity : natural1r (@polarity). Proof. intros T1 T2 O1 O2 g Hg. apply nat_polarity, Hg. Qed.
Lemma natural_dual k : natural1r (fun T O A => @dual T O A k).
Proof. intros T1 T2 O1 O2 g Hg A x. apply nat_dual, Hg. Qed.
Lemma natural_undual k : natural1r (fun T O A => @undual T O A k).
Proof. intros T1 T2 O1 O2 g Hg A x. apply nat_undual, Hg. Qed.
Lemma natural_grade_sel grades : natural1r (fun T O A => @grade_sel T O A grades).
Proof. intros T1 T2 O1 O2 g Hg A x. apply nat_grade_sel, Hg. Qed.

Lemma map_mv_comp {A B C} (f : A -> B) (g : B -> C) (x : mv A) :
  map_mv g (map_mv f x) = map_mv (fun a => g (f a)) x.
Proof. unfold map_mv. rewrite map_map. reflexivity. Qed.

Lemma map_mv_ext {A B} (f g : A -> B) (x : mv A) : (forall a, f a = g a) -> map_mv f x = map_mv g x.
Proof. intros H. unfold map_mv. apply map_ext. intros kv. rewrite H. reflexivity. Qed.

(* the filter commutes with any map of the coefficients, for the pulled-back test *)
Lemma filter_nz_map_mv {A B} (g : A -> B) (isz : B -> bool) (x : mv A) :
  filter_nz isz (map_mv g x) = map_mv g (filter_nz (fun a => isz (g a)) x).
Proof.
  induction x as [|[k v] r IH]; cbn [map_mv map filter_nz filter fst snd].
  - reflexivity.
  - fold (map_mv g r). fold (filter_nz isz (map_mv g r)). fold (filter_nz (fun a => isz (g a)) r).
    rewrite IH. destruct (negb (isz (g v))); reflexivity.
Qed.

(* the composites with filters are natural when the filters correspond *)
Section NatWith.
  Context {R S : Type} (OR : ops R) (OS : ops S) (h : R -> S).
  Hypothesis Hh : ops_hom OR OS h.
  Variables (FR : mv R -> mv R) (FS : mv S -> mv S).
  Hypothesis HF : forall x, map_mv h (FR x) = FS (map_mv h x).

  Lemma nat_sw_with A x y :
    map_mv h (sw_with OR FR A x y) = sw_with OS FS A (map_mv h x) (map_mv h y).
  Proof.
    unfold sw_with.
    rewrite HF, (nat_gp OR OS h Hh), !HF, (nat_gp OR OS h Hh), (nat_reverse OR OS h Hh). reflexivity.
  Qed.
  Lemma nat_proj_with A x y :
    map_mv h (proj_with OR FR A x y) = proj_with OS FS A (map_mv h x) (map_mv h y).
  Proof.
    unfold proj_with.
    rewrite HF, (nat_gp OR OS h Hh), !HF, (nat_ip OR OS h Hh), (nat_reverse OR OS h Hh). reflexivity.
  Qed.
  Lemma nat_normsq_with A x :
    map_mv h (normsq_with OR FR A x) = normsq_with OS FS A (map_mv h x).
  Proof.
    unfold normsq_with. rewrite HF, (nat_gp OR OS h Hh), !HF, (nat_reverse OR OS h Hh). reflexivity.
  Qed.
End NatWith.

Section Relative.
  Context {R S : Type} (OR : ops R) (OS : ops S) (h : R -> S) (Q : R -> Prop).
  Hypothesis Hc : ops_closed OR Q.
  Hypothesis Hr : ops_hom_on OR OS h Q.

  (* the subtype with the restricted operations *)
  Definition sub_ops : ops (sig Q) :=
    mkOps (sig Q)
      (fun a b => exist Q _ (cl_add OR Q Hc _ _ (proj2_sig a) (proj2_sig b)))
      (fun a b => exist Q _ (cl_sub OR Q Hc _ _ (proj2_sig a) (proj2_sig b)))
      (fun a b => exist Q _ (cl_mul OR Q Hc _ _ (proj2_sig a) (proj2_sig b)))
      (fun a => exist Q _ (cl_neg OR Q Hc _ (proj2_sig a)))
      (exist Q _ (cl_zero OR Q Hc))
      (exist Q _ (cl_one OR Q Hc)).

  Local Notation iota := (@proj1_sig R Q).
  Local Notation h' := (fun a : sig Q => h (proj1_sig a)).

  Lemma iota_hom : ops_hom sub_ops OR iota.
  Proof. constructor; reflexivity. Qed.

  Lemma restr_hom : ops_hom sub_ops OS h'.
  Proof.
    constructor; cbn [sub_ops o_zero o_one o_add o_sub o_mul o_neg proj1_sig].
    - apply (homon_zero _ _ _ _ Hr).
    - apply (homon_one _ _ _ _ Hr).
    - intros a b. apply (homon_add _ _ _ _ Hr); apply proj2_sig.
    - intros a b. apply (homon_sub _ _ _ _ Hr); apply proj2_sig.
    - intros a b. apply (homon_mul _ _ _ _ Hr); apply proj2_sig.
    - intros a. apply (homon_neg _ _ _ _ Hr); apply proj2_sig.
  Qed.

  Lemma lift_mv (x : mv R) : all_coeffs Q x -> exists x' : mv (sig Q), map_mv iota x' = x.
  Proof.
    induction x as [|[k v] r IH]; intros Hx.
    - exists []. reflexivity.
    - inversion Hx as [|? ? Hv Hx']; subst. cbn [snd] in Hv. destruct (IH Hx') as [r' Er].
      exists ((k, exist Q v Hv) :: r'). cbn [map_mv map fst snd proj1_sig]. fold (map_mv iota r').
      rewrite Er. reflexivity.
  Qed.

  Lemma all_coeffs_iota (x' : mv (sig Q)) : all_coeffs Q (map_mv iota x').
  Proof.
    apply Forall_forall. intros kv Hin. unfold map_mv in Hin. apply in_map_iff in Hin.
    destruct Hin as [kv' [E _]]. subst kv. cbn [snd]. apply proj2_sig.
  Qed.

  Theorem rel_nat2 f : natural2 f -> forall A x y, all_coeffs Q x -> all_coeffs Q y ->
    map_mv h (f R OR A x y) = f S OS A (map_mv h x) (map_mv h y).
  Proof.
    intros Hf A x y Hx Hy. destruct (lift_mv x Hx) as [x' Ex]. destruct (lift_mv y Hy) as [y' Ey].
    subst x y. rewrite <- (Hf _ _ sub_ops OR iota iota_hom), !map_mv_comp.
    apply (Hf _ _ sub_ops OS h' restr_hom).
  Qed.

  Theorem rel_closed2 f : natural2 f -> forall A x y, all_coeffs Q x -> all_coeffs Q y ->
    all_coeffs Q (f R OR A x y).
  Proof.
    intros Hf A x y Hx Hy. destruct (lift_mv x Hx) as [x' Ex]. destruct (lift_mv y Hy) as [y' Ey].
    subst x y. rewrite <- (Hf _ _ sub_ops OR iota iota_hom). apply all_coeffs_iota.
  Qed.

  Theorem rel_nat1 f : natural1 f -> forall A x, all_coeffs Q x ->
    map_mv h (f R OR A x) = f S OS A (map_mv h x).
  Proof.
    intros Hf A x Hx. destruct (lift_mv x Hx) as [x' Ex].
    subst x. rewrite <- (Hf _ _ sub_ops OR iota iota_hom), !map_mv_comp.
    apply (Hf _ _ sub_ops OS h' restr_hom).
  Qed.

  Theorem rel_closed1 f : natural1 f -> forall A x, all_coeffs Q x -> all_coeffs Q (f R OR A x).
  Proof.
    intros Hf A x Hx. destruct (lift_mv x Hx) as [x' Ex].
    subst x. rewrite <- (Hf _ _ sub_ops OR iota iota_hom). apply all_coeffs_iota.
  Qed.

  Theorem rel_nat1r f : natural1r f -> forall A x, all_coeffs Q x ->
    map_res (map_mv h) (f R OR A x) = f S OS A (map_mv h x).
  Proof.
    intros Hf A x Hx. destruct (lift_mv x Hx) as [x' Ex].
    subst x. rewrite <- (Hf _ _ sub_ops OR iota iota_hom), map_mv_comp.
    rewrite <- (Hf _ _ sub_ops OS h' restr_hom).
    destruct (f (sig Q) sub_ops A x') as [z|e]; cbn [map_res]; [rewrite map_mv_comp|]; reflexivity.
  Qed.

  Theorem rel_coeff K x : all_coeffs Q x -> coeff OS K (map_mv h x) = h (coeff OR K x).
  Proof.
    intros Hx. destruct (lift_mv x Hx) as [x' Ex]. subst x.
    rewrite map_mv_comp, (coeff_map_mv sub_ops OS h' restr_hom), (coeff_map_mv sub_ops OR iota iota_hom).
    reflexivity.
  Qed.
End Relative.

(* C06 for a relative homomorphism into a commutative ring *)
Section RelativeFiltered.
  Context {R : Type} (OR : ops R).
  Variable S : Type.
  Variables (sO sI : S) (sadd smul ssub : S -> S -> S) (sopp : S -> S).
  Hypothesis Sth : ring_theory sO sI sadd smul ssub sopp (@eq S).
  Local Notation OS := (mkOps S sadd ssub smul sopp sO sI).
  Local Notation equiv := (Sparse.equiv sO sI sadd smul ssub sopp).
  Local Infix "==" := equiv (at level 70, no associativity).
  Variable h : R -> S.
  Variable Q : R -> Prop.
  Hypothesis Hc : ops_closed OR Q.
  Hypothesis Hr : ops_hom_on OR OS h Q.
  Variable isz : R -> bool.
  Hypothesis Hisz : forall r, Q r -> isz r = true -> h r = sO.
  Local Notation F := (filter_nz isz).
  Local Notation iota := (@proj1_sig R Q).
  Local Notation h' := (fun a : sig Q => h (proj1_sig a)).
  Local Notation isz' := (fun a : sig Q => isz (proj1_sig a)).
  Local Notation SO := (sub_ops OR Q Hc).

  Let Hi : ops_hom SO OR iota := iota_hom OR Q Hc.
  Let Hh' : ops_hom SO OS h' := restr_hom OR OS h Q Hc Hr.
  Let HF : forall x' : mv (sig Q), map_mv iota (filter_nz isz' x') = F (map_mv iota x').
  Proof. intros x'. symmetry. apply filter_nz_map_mv. Qed.
  Let Hisz' : forall a : sig Q, True -> isz' a = true -> h' a = sO.
  Proof. intros a _ Ha. apply Hisz; [apply proj2_sig | exact Ha]. Qed.

  Theorem rel_filter_nz_equiv (x : mv R) :
    NoDup (keys x) -> all_coeffs Q x -> map_mv h (F x) == map_mv h x.
  Proof. apply (filter_nz_equiv S sO sI sadd smul ssub sopp h isz Q Hisz). Qed.

  Theorem rel_C06_sw A (x y : mv R) :
    NoDup (canon_keys A) -> all_coeffs Q x -> all_coeffs Q y ->
    map_mv h (sw_with OR F A x y) == sw OS A (map_mv h x) (map_mv h y).
  Proof.
    intros HA Hx Hy. destruct (lift_mv Q x Hx) as [x' Ex]. destruct (lift_mv Q y Hy) as [y' Ey].
    subst x y. rewrite <- (nat_sw_with SO OR iota Hi (filter_nz isz') F HF), !map_mv_comp.
    apply (C06_sw SO S sO sI sadd smul ssub sopp Sth h' Hh' isz' (fun _ => True) Hisz');
      auto using all_coeffs_True.
  Qed.

  Theorem rel_C06_proj A (x y : mv R) :
    NoDup (canon_keys A) -> all_coeffs Q x -> all_coeffs Q y ->
    map_mv h (proj_with OR F A x y) == proj OS A (map_mv h x) (map_mv h y).
  Proof.
    intros HA Hx Hy. destruct (lift_mv Q x Hx) as [x' Ex]. destruct (lift_mv Q y Hy) as [y' Ey].
    subst x y. rewrite <- (nat_proj_with SO OR iota Hi (filter_nz isz') F HF), !map_mv_comp.
    apply (C06_proj SO S sO sI sadd smul ssub sopp Sth h' Hh' isz' (fun _ => True) Hisz');
      auto using all_coeffs_True.
  Qed.

  Theorem rel_C06_normsq A (x : mv R) :
    NoDup (canon_keys A) -> NoDup (keys x) -> all_coeffs Q x ->
    map_mv h (normsq_with OR F A x) == normsq OS A (map_mv h x).
  Proof.
    intros HA Hk Hx. destruct (lift_mv Q x Hx) as [x' Ex].
    subst x. rewrite <- (nat_normsq_with SO OR iota Hi (filter_nz isz') F HF), !map_mv_comp.
    rewrite (keys_map_mv iota) in Hk.
    apply (C06_normsq SO S sO sI sadd smul ssub sopp Sth h' Hh' isz' (fun _ => True) Hisz');
      auto using all_coeffs_True.
  Qed.
End RelativeFiltered.

(* ================= 4b'. the default symbol class: RationalPolynomial with denominator 1 ================= *)
(* kingdon's default codegen_symbolcls is RationalPolynomial.  The generators above only add,
   subtract, multiply and negate, and on operands with denominator 1 (symbols, integers) these
   operations return denominator 1 again: the symbolic coefficients are polynomials, evaluation is
   evaluation of the numerator, and everything above transfers (through the relative version). *)

Definition Rops : ops rpoly := mkOps rpoly radd rsub rmul rneg (R_of_Z 0) (R_of_Z 1).
Definition rzero (r : rpoly) : bool := negb (rbool r).       (* `not coefficient` *)

(* polynomial-valued: well-formed numerator, denominator literally Polynomial([[1]]) *)
Definition rpolyQ (r : rpoly) : Prop := Inv (rnum r) /\ rden r = [(1%Z, [])].

Lemma rpolyQ_rwf r : rpolyQ r -> rwf r.
Proof.
  intros [Hn Hd]. unfold rwf. rewrite Hd. split; [exact Hn|]. split; [reflexivity|].
  intros Hz. specialize (Hz []). vm_compute in Hz. discriminate.
Qed.

Lemma rpolyQ_R_of_Z c : rpolyQ (R_of_Z c).
Proof. split; [apply (Inv_P_of_Z c) | reflexivity]. Qed.

Lemma rpolyQ_R_of_var v : rpolyQ (R_of_var v).
Proof. split; [apply InvS_Inv, InvS_P_of_var | reflexivity]. Qed.

Lemma rden_radd a b : rden a = [(1%Z, [])] -> rden b = [(1%Z, [])] -> rden (radd a b) = [(1%Z, [])].
Proof.
  intros Ha Hb. unfold radd. destruct (req_Z b 0); [exact Ha|]. destruct (req_Z a 0); [exact Hb|].
  rewrite Ha, Hb. cbv zeta.
  match goal with |- context [(Nat.eqb (length ?p) (length ?q) && peq ?p ?q)] =>
    change (Nat.eqb (length p) (length q) && peq p q) with true end.
  cbn [fst snd].
  destruct (peq_Z (padd (rnum a) (rnum b)) 0); [reflexivity|].
  match goal with |- context [if ?c then R_of_poly _ else _] => destruct c end; reflexivity.
Qed.

Lemma rden_rmul a b : rden a = [(1%Z, [])] -> rden b = [(1%Z, [])] -> rden (rmul a b) = [(1%Z, [])].
Proof.
  intros Ha Hb. unfold rmul.
  destruct (req_Z a 0); [exact Ha|]. destruct (req_Z b 0); [exact Hb|].
  destruct (req_Z b 1); [exact Ha|]. destruct (req_Z a 1); [exact Hb|].
  rewrite Ha, Hb. cbv zeta.
  match goal with |- context [pmul ?p ?p] => change (pmul p p) with p end.
  destruct (peq_Z (pmul (rnum a) (rnum b)) 0); [reflexivity|].
  match goal with |- context [if ?c then R_of_poly _ else _] => destruct c end; [reflexivity|].
  destruct (pmul (rnum a) (rnum b)) as [|fl1 [|fl1' rest]]; cbn [rden]; try reflexivity.
  cbn [snd fst]. rewrite cancel_nil_r. reflexivity.
Qed.

Lemma rpolyQ_radd a b : rpolyQ a -> rpolyQ b -> rpolyQ (radd a b).
Proof.
  intros Ha Hb. split.
  - apply (rwf_radd a b (rpolyQ_rwf a Ha) (rpolyQ_rwf b Hb)).
  - apply rden_radd; [apply Ha | apply Hb].
Qed.
Lemma rpolyQ_rmul a b : rpolyQ a -> rpolyQ b -> rpolyQ (rmul a b).
Proof.
  intros Ha Hb. split.
  - apply (rwf_rmul a b (rpolyQ_rwf a Ha) (rpolyQ_rwf b Hb)).
  - apply rden_rmul; [apply Ha | apply Hb].
Qed.
Lemma rpolyQ_rneg a : rpolyQ a -> rpolyQ (rneg a).
Proof. intros [Hn Hd]. split; [apply Inv_pneg; exact Hn | exact Hd]. Qed.
Lemma rpolyQ_rsub a b : rpolyQ a -> rpolyQ b -> rpolyQ (rsub a b).
Proof. intros Ha Hb. unfold rsub. apply rpolyQ_radd; [exact Ha | apply rpolyQ_rneg; exact Hb]. Qed.

Theorem Rops_closed : ops_closed Rops rpolyQ.
Proof.
  constructor; cbn [Rops o_zero o_one o_add o_sub o_mul o_neg].
  - apply rpolyQ_R_of_Z.
  - apply rpolyQ_R_of_Z.
  - apply rpolyQ_radd.
  - apply rpolyQ_rsub.
  - apply rpolyQ_rmul.
  - apply rpolyQ_rneg.
Qed.

(* a fully symbolic multivector over the default class *)
Lemma rpolyQ_symbolic_mv (kvs : list (Z * nat)) :
  all_coeffs rpolyQ (map (fun kv => (fst kv, R_of_var (snd kv))) kvs).
Proof.
  apply Forall_forall. intros kv Hin. apply in_map_iff in Hin. destruct Hin as [kv' [E _]].
  subst kv. cbn [snd]. apply rpolyQ_R_of_var.
Qed.

Section RPolySubst.
  Variable R : Type.
  Variables (R0 R1 : R) (Radd Rmul Rsub : R -> R -> R) (Ropp : R -> R).
  Hypothesis Rth : ring_theory R0 R1 Radd Rmul Rsub Ropp (@eq R).
  Add Ring RPolySubst_ring : Rth.
  Local Notation O := (mkOps R Radd Rsub Rmul Ropp R0 R1).
  Local Notation equiv := (Sparse.equiv R0 R1 Radd Rmul Rsub Ropp).
  Local Infix "==" := equiv (at level 70, no associativity).
  Variable rho : nat -> R.
  (* the value of a polynomial-valued RationalPolynomial: its numerator evaluated *)
  Local Notation evN := (Poly.N R R0 R1 Radd Rmul Ropp rho).
  Local Notation evD := (Poly.D R R0 R1 Radd Rmul Ropp rho).
  Local Notation "X [rho]" := (map_mv evN X) (at level 9, format "X [rho]").

  Lemma evD_one r : rpolyQ r -> evD r = R1.
  Proof.
    intros [_ Hd]. unfold Poly.D. rewrite Hd. apply (peval_one R R0 R1 Radd Rmul Rsub Ropp Rth).
  Qed.

  Theorem evN_hom_on : ops_hom_on Rops O evN rpolyQ.
  Proof.
    constructor; cbn [Rops o_zero o_one o_add o_sub o_mul o_neg].
    - rewrite (N_R_of_Z R R0 R1 Radd Rmul Rsub Ropp Rth). apply (zinj_0 R R0 R1 Radd Rmul Rsub Ropp Rth).
    - rewrite (N_R_of_Z R R0 R1 Radd Rmul Rsub Ropp Rth). apply (zinj_1 R R0 R1 Radd Rmul Rsub Ropp Rth).
    - intros a b Ha Hb.
      pose proof (radd_correct R R0 R1 Radd Rmul Rsub Ropp Rth rho a b) as H.
      rewrite (evD_one a Ha), (evD_one b Hb), (evD_one _ (rpolyQ_radd a b Ha Hb)) in H.
      transitivity (Rmul (evN (radd a b)) (Rmul R1 R1)); [ring|]. rewrite H. ring.
    - intros a b Ha Hb.
      pose proof (rsub_correct R R0 R1 Radd Rmul Rsub Ropp Rth rho a b) as H.
      rewrite (evD_one a Ha), (evD_one b Hb), (evD_one _ (rpolyQ_rsub a b Ha Hb)) in H.
      transitivity (Rmul (evN (rsub a b)) (Rmul R1 R1)); [ring|]. rewrite H. ring.
    - intros a b Ha Hb.
      pose proof (rmul_correct R R0 R1 Radd Rmul Rsub Ropp Rth rho a b) as H.
      rewrite (evD_one a Ha), (evD_one b Hb), (evD_one _ (rpolyQ_rmul a b Ha Hb)) in H.
      transitivity (Rmul (evN (rmul a b)) (Rmul R1 R1)); [ring|]. rewrite H. ring.
    - intros a Ha. apply (rneg_ND R R0 R1 Radd Rmul Rsub Ropp Rth rho a).
  Qed.
  Local Notation Hc := Rops_closed.
  Local Notation Hr := evN_hom_on.

  Theorem rzero_sound r : rpolyQ r -> rzero r = true -> evN r = R0.
  Proof.
    intros Hq Hz. unfold rzero in Hz. apply negb_true_iff in Hz. unfold Poly.N.
    apply (fzero_peval R R0 R1 Radd Rmul Rsub Ropp Rth).
    apply (rbool_exact r (rpolyQ_rwf r Hq)). exact Hz.
  Qed.

  (* generic: EVERY operator that is natural for homomorphisms commutes with substitution on
     polynomial-valued operands, and returns polynomial-valued coefficients *)
  Theorem C12_rpoly_subst2 f : natural2 f -> forall A X Y, all_coeffs rpolyQ X -> all_coeffs rpolyQ Y ->
    (f rpoly Rops A X Y)[rho] = f R O A X[rho] Y[rho].
  Proof. apply (rel_nat2 Rops O evN rpolyQ Hc Hr). Qed.
  Theorem C12_rpoly_subst1 f : natural1 f -> forall A X, all_coeffs rpolyQ X ->
    (f rpoly Rops A X)[rho] = f R O A X[rho].
  Proof. apply (rel_nat1 Rops O evN rpolyQ Hc Hr). Qed.
  Theorem C12_rpoly_subst1r f : natural1r f -> forall A X, all_coeffs rpolyQ X ->
    map_res (fun r => r[rho]) (f rpoly Rops A X) = f R O A X[rho].
  Proof. apply (rel_nat1r Rops O evN rpolyQ Hc Hr). Qed.

  (* the instances used most *)
  Corollary C12_rpoly_gp A X Y : all_coeffs rpolyQ X -> all_coeffs rpolyQ Y ->
    (gp Rops A X Y)[rho] = gp O A X[rho] Y[rho].
  Proof. apply (C12_rpoly_subst2 (@gp) natural_gp). Qed.
  Corollary C12_rpoly_op A X Y : all_coeffs rpolyQ X -> all_coeffs rpolyQ Y ->
    (op Rops A X Y)[rho] = op O A X[rho] Y[rho].
  Proof. apply (C12_rpoly_subst2 (@op) natural_op). Qed.
  Corollary C12_rpoly_ip A X Y : all_coeffs rpolyQ X -> all_coeffs rpolyQ Y ->
    (ip Rops A X Y)[rho] = ip O A X[rho] Y[rho].
  Proof. apply (C12_rpoly_subst2 (@ip) natural_ip). Qed.
  Corollary C12_rpoly_rp A X Y : all_coeffs rpolyQ X -> all_coeffs rpolyQ Y ->
    (rp Rops A X Y)[rho] = rp O A X[rho] Y[rho].
  Proof. apply (C12_rpoly_subst2 (@rp) natural_rp). Qed.
  Corollary C12_rpoly_add A X Y : all_coeffs rpolyQ X -> all_coeffs rpolyQ Y ->
    (add Rops A X Y)[rho] = add O A X[rho] Y[rho].
  Proof. apply (C12_rpoly_subst2 (@add) natural_add). Qed.
  Corollary C12_rpoly_sub A X Y : all_coeffs rpolyQ X -> all_coeffs rpolyQ Y ->
    (sub Rops A X Y)[rho] = sub O A X[rho] Y[rho].
  Proof. apply (C12_rpoly_subst2 (@sub) natural_sub). Qed.
  Corollary C12_rpoly_reverse A X : all_coeffs rpolyQ X ->
    (reverse Rops A X)[rho] = reverse O A X[rho].
  Proof. apply (C12_rpoly_subst1 (@reverse) natural_reverse). Qed.
  Corollary C12_rpoly_hodge A X : all_coeffs rpolyQ X ->
    (hodge Rops A X)[rho] = hodge O A X[rho].
  Proof. apply (C12_rpoly_subst1 (@hodge) natural_hodge). Qed.
  Corollary C12_rpoly_sw A X Y : all_coeffs rpolyQ X -> all_coeffs rpolyQ Y ->
    (sw Rops A X Y)[rho] = sw O A X[rho] Y[rho].
  Proof. apply (C12_rpoly_subst2 (@sw) natural_sw). Qed.

  Theorem filter_rpoly_equiv (X : mv rpoly) :
    NoDup (keys X) -> all_coeffs rpolyQ X -> (filter_nz rzero X)[rho] == X[rho].
  Proof. apply (rel_filter_nz_equiv R R0 R1 Radd Rmul Rsub Ropp evN rpolyQ rzero rzero_sound). Qed.

  (* C06 for the default symbol class *)
  Theorem C06_sw_rpoly A (X Y : mv rpoly) :
    NoDup (canon_keys A) -> all_coeffs rpolyQ X -> all_coeffs rpolyQ Y ->
    (sw_with Rops (filter_nz rzero) A X Y)[rho] == sw O A X[rho] Y[rho].
  Proof. apply (rel_C06_sw Rops R R0 R1 Radd Rmul Rsub Ropp Rth evN rpolyQ Hc Hr rzero rzero_sound). Qed.

  Theorem C06_proj_rpoly A (X Y : mv rpoly) :
    NoDup (canon_keys A) -> all_coeffs rpolyQ X -> all_coeffs rpolyQ Y ->
    (proj_with Rops (filter_nz rzero) A X Y)[rho] == proj O A X[rho] Y[rho].
  Proof. apply (rel_C06_proj Rops R R0 R1 Radd Rmul Rsub Ropp Rth evN rpolyQ Hc Hr rzero rzero_sound). Qed.

  Theorem C06_normsq_rpoly A (X : mv rpoly) :
    NoDup (canon_keys A) -> NoDup (keys X) -> all_coeffs rpolyQ X ->
    (normsq_with Rops (filter_nz rzero) A X)[rho] == normsq O A X[rho].
  Proof. apply (rel_C06_normsq Rops R R0 R1 Radd Rmul Rsub Ropp Rth evN rpolyQ Hc Hr rzero rzero_sound). Qed.
End RPolySubst.

(* ================= 5. closed examples (non-vacuity) ================= *)

Section ExamplesNatural.
  Local Open Scope Z_scope.

  (* Cl(2,0) = Product.A2 (keys 0 = 1, 1 = e1, 2 = e2, 3 = e12) and Cl(3,0) *)
  Definition A3e : alg := mk_default [1; 1; 1] 1 false.
  Example A3e_keys : canon_keys A3e = [0; 1; 2; 4; 3; 5; 6; 7].
  Proof. vm_compute. reflexivity. Qed.

  Lemma NoDup_A2 : NoDup (canon_keys A2).
  Proof. vm_compute. repeat constructor; cbn [In]; intuition lia. Qed.
  Lemma NoDup_A3e : NoDup (canon_keys A3e).
  Proof. vm_compute. repeat constructor; cbn [In]; intuition lia. Qed.

  (* --- the composites on numbers: sw x y = (x * y) * ~x etc. --- *)
  Example sw_Z_ex :
    sw Zops A2 [(0, 2); (3, 1)] [(1, 3); (2, 1)]
    = gp Zops A2 (gp Zops A2 [(0, 2); (3, 1)] [(1, 3); (2, 1)]) (reverse Zops A2 [(0, 2); (3, 1)])
    /\ sw Zops A2 [(0, 2); (3, 1)] [(1, 3); (2, 1)] = [(1, 13); (2, -9)].
  Proof. vm_compute. split; reflexivity. Qed.

  (* reflection of 3 e1 + e2 in the vector e1 + 2 e2 *)
  Example sw_Z_ex2 : sw Zops A2 [(1, 1); (2, 2)] [(1, 3); (2, 1)] = [(1, -5); (2, 15)].
  Proof. vm_compute. reflexivity. Qed.

  Example proj_Z_ex :
    proj Zops A2 [(1, 1); (2, 2)] [(1, 3); (2, 1)]
    = gp Zops A2 (ip Zops A2 [(1, 1); (2, 2)] [(1, 3); (2, 1)]) (reverse Zops A2 [(1, 3); (2, 1)])
    /\ proj Zops A2 [(1, 1); (2, 2)] [(1, 3); (2, 1)] = [(1, 15); (2, 5)].
  Proof. vm_compute. split; reflexivity. Qed.

  Example normsq_Z_ex :
    normsq Zops A2 [(1, 3); (2, 4)] = gp Zops A2 [(1, 3); (2, 4)] (reverse Zops A2 [(1, 3); (2, 4)])
    /\ normsq Zops A2 [(1, 3); (2, 4)] = [(0, 25); (3, 0)].       (* numeric path: the 0 stays stored *)
  Proof. vm_compute. split; reflexivity. Qed.

  (* --- a homomorphism Z -> Z/2 (as bool: xor / and): naturality, literally --- *)
  Definition Bops : ops bool := mkOps bool xorb xorb andb (fun b => b) false true.
  Lemma odd_hom : ops_hom Zops Bops Z.odd.
  Proof.
    constructor; cbn [Zops Bops o_zero o_one o_add o_sub o_mul o_neg]; intros.
    - reflexivity.
    - reflexivity.
    - apply Z.odd_add.
    - apply Z.odd_sub.
    - apply Z.odd_mul.
    - apply Z.odd_opp.
  Qed.
  Example nat_gp_mod2 (x y : mv Z) :
    map_mv Z.odd (gp Zops A3e x y) = gp Bops A3e (map_mv Z.odd x) (map_mv Z.odd y).
  Proof. apply (nat_gp Zops Bops Z.odd odd_hom). Qed.
  Example nat_gp_mod2_ex :
    map_mv Z.odd (gp Zops A2 [(1, 1); (2, 2)] [(1, 3)]) = [(0, true); (3, false)]
    /\ gp Bops A2 [(1, true); (2, false)] [(1, true)] = [(0, true); (3, false)].
  Proof. vm_compute. split; reflexivity. Qed.

  (* --- C16: arrays of length 2 as functions bool -> Z --- *)
  Definition arr (a b : Z) : bool -> Z := fun i => if i then a else b.
  Example index_commutes_ex :
    map_mv (fun f => f true) (gp (pw_ops bool Zops) A2 [(1, arr 1 5); (2, arr 2 7)] [(1, arr 3 1)])
    = gp Zops A2 [(1, 1); (2, 2)] [(1, 3)]
    /\ map_mv (fun f => f false) (gp (pw_ops bool Zops) A2 [(1, arr 1 5); (2, arr 2 7)] [(1, arr 3 1)])
    = gp Zops A2 [(1, 5); (2, 7)] [(1, 1)].
  Proof. vm_compute. split; reflexivity. Qed.

  (* --- C06 / C12 on the Polynomial class --- *)
  (* x = a0 e1 + a1 e2 fully symbolic.  x * ~x generates the keys 0 and e12; the e12 coefficient
     a0*a1 - a1*a0 cancels identically (to the empty polynomial) and the filter drops it *)
  Definition X2 : mv poly := [(1, P_of_var 0); (2, P_of_var 1)].
  Example normsq_poly_unfiltered :
    normsq Pops A2 X2 = [(0, [(1, [0%nat; 0%nat]); (1, [1%nat; 1%nat])]); (3, [])].
  Proof. vm_compute. reflexivity. Qed.
  Example normsq_poly_filtered :
    normsq_with Pops (filter_nz pzero) A2 X2 = [(0, [(1, [0%nat; 0%nat]); (1, [1%nat; 1%nat])])].
  Proof. vm_compute. reflexivity. Qed.

  Definition rho_ex (n : nat) : Z := nth n [3; 4; 5; -2; 7; 1] 0.
  Local Notation evZ := (peval Z 0 1 Z.add Z.mul Z.opp rho_ex).
  (* evaluated at a0 = 3, a1 = 4: 25, and the numeric composite stores 25 and an explicit 0 on e12 *)
  Example normsq_poly_eval :
    map_mv evZ (normsq_with Pops (filter_nz pzero) A2 X2) = [(0, 25)]
    /\ normsq Zops A2 (map_mv evZ X2) = [(0, 25); (3, 0)].
  Proof. vm_compute. split; reflexivity. Qed.
  (* the instance of C06_normsq_poly, hypotheses discharged *)
  Example normsq_poly_thm :
    equiv 0 1 Z.add Z.mul Z.sub Z.opp
          (map_mv evZ (normsq_with Pops (filter_nz pzero) A2 X2)) (normsq Zops A2 (map_mv evZ X2)).
  Proof.
    apply (C06_normsq_poly Z 0 1 Z.add Z.mul Z.sub Z.opp Zth rho_ex A2 X2).
    - exact NoDup_A2.
    - vm_compute. repeat constructor; cbn [In]; intuition lia.
    - apply (Inv_symbolic_mv [(1, 0%nat); (2, 1%nat)]).
  Qed.

  (* a >> b for two symbolic vectors of Cl(3,0): the trivector coefficient (key 7) of (a*b)*~a
     cancels identically and is dropped; evaluation gives the numeric sandwich *)
  Definition X3 : mv poly := [(1, P_of_var 0); (2, P_of_var 1); (4, P_of_var 2)].
  Definition Y3 : mv poly := [(1, P_of_var 3); (2, P_of_var 4); (4, P_of_var 5)].
  Example sw_poly_keys :
    keys (sw Pops A3e X3 Y3) = [1; 2; 4; 7]
    /\ coeff Pops 7 (sw Pops A3e X3 Y3) = []
    /\ keys (sw_with Pops (filter_nz pzero) A3e X3 Y3) = [1; 2; 4].
  Proof. vm_compute. repeat split; reflexivity. Qed.
  Example sw_poly_e1 :
    coeff Pops 1 (sw_with Pops (filter_nz pzero) A3e X3 Y3)
    = [(1, [0; 0; 3]%nat); (2, [0; 1; 4]%nat); (2, [0; 2; 5]%nat); (-1, [1; 1; 3]%nat); (-1, [2; 2; 3]%nat)].
  Proof. vm_compute. reflexivity. Qed.
  Example sw_poly_eval :
    map_mv evZ (sw_with Pops (filter_nz pzero) A3e X3 Y3) = [(1, 262); (2, -134); (4, 220)]
    /\ sw Zops A3e (map_mv evZ X3) (map_mv evZ Y3) = [(1, 262); (2, -134); (4, 220); (7, 0)].
  Proof. vm_compute. split; reflexivity. Qed.
  Example sw_poly_thm :
    equiv 0 1 Z.add Z.mul Z.sub Z.opp
          (map_mv evZ (sw_with Pops (filter_nz pzero) A3e X3 Y3))
          (sw Zops A3e (map_mv evZ X3) (map_mv evZ Y3)).
  Proof.
    apply (C06_sw_poly Z 0 1 Z.add Z.mul Z.sub Z.opp Zth rho_ex A3e X3 Y3).
    - exact NoDup_A3e.
    - apply (Inv_symbolic_mv [(1, 0%nat); (2, 1%nat); (4, 2%nat)]).
    - apply (Inv_symbolic_mv [(1, 3%nat); (2, 4%nat); (4, 5%nat)]).
  Qed.

  (* the same with the default symbol class RationalPolynomial: all denominators stay [[1]] *)
  Definition RX3 : mv rpoly := [(1, R_of_var 0); (2, R_of_var 1); (4, R_of_var 2)].
  Definition RY3 : mv rpoly := [(1, R_of_var 3); (2, R_of_var 4); (4, R_of_var 5)].
  Local Notation evNZ := (Poly.N Z 0 1 Z.add Z.mul Z.opp rho_ex).
  Example sw_rpoly_keys :
    keys (sw Rops A3e RX3 RY3) = [1; 2; 4; 7]
    /\ keys (sw_with Rops (filter_nz rzero) A3e RX3 RY3) = [1; 2; 4]
    /\ map (fun kv => rden (snd kv)) (sw_with Rops (filter_nz rzero) A3e RX3 RY3)
       = [[(1, [])]; [(1, [])]; [(1, [])]]
    /\ map_mv rnum (sw_with Rops (filter_nz rzero) A3e RX3 RY3)
       = sw_with Pops (filter_nz pzero) A3e X3 Y3.
  Proof. vm_compute. repeat split; reflexivity. Qed.
  Example sw_rpoly_eval :
    map_mv evNZ (sw_with Rops (filter_nz rzero) A3e RX3 RY3) = [(1, 262); (2, -134); (4, 220)].
  Proof. vm_compute. reflexivity. Qed.
  Example sw_rpoly_thm :
    equiv 0 1 Z.add Z.mul Z.sub Z.opp
          (map_mv evNZ (sw_with Rops (filter_nz rzero) A3e RX3 RY3))
          (sw Zops A3e (map_mv evNZ RX3) (map_mv evNZ RY3)).
  Proof.
    apply (C06_sw_rpoly Z 0 1 Z.add Z.mul Z.sub Z.opp Zth rho_ex A3e RX3 RY3).
    - exact NoDup_A3e.
    - apply (rpolyQ_symbolic_mv [(1, 0%nat); (2, 1%nat); (4, 2%nat)]).
    - apply (rpolyQ_symbolic_mv [(1, 3%nat); (2, 4%nat); (4, 5%nat)]).
  Qed.

  (* C12, literally: symbolic gp then substitution = numeric gp of the substituted operands *)
  Example C12_gp_ex :
    map_mv evZ (gp Pops A3e X3 Y3) = gp Zops A3e (map_mv evZ X3) (map_mv evZ Y3)
    /\ gp Zops A3e (map_mv evZ X3) (map_mv evZ Y3) = [(0, 27); (3, 29); (5, 13); (6, -31)].
  Proof. vm_compute. split; reflexivity. Qed.

  (* the invariant is needed for the filter: the ill-formed polynomial x - x stored as two
     monomials tests truthy although it vanishes identically (kept: harmless), whereas a coefficient
     that tests falsy but does not vanish would be an unsound drop; on Inv polynomials neither
     happens (Poly.pbool_exact) *)
  Example filter_keeps_illformed_zero :
    filter_nz pzero [(1, [(1, [0%nat]); (-1, [0%nat])])] = [(1, [(1, [0%nat]); (-1, [0%nat])])].
  Proof. vm_compute. reflexivity. Qed.

  (* NoDup (keys x) is needed in filter_nz_equiv: with a repeated key, dropping the first (zero)
     entry uncovers the second one *)
  Example filter_needs_NoDup :
    coeff Zops 1 (filter_nz (Z.eqb 0) [(1, 0); (1, 5)]) = 5 /\ coeff Zops 1 [(1, 0); (1, 5)] = 0.
  Proof. vm_compute. split; reflexivity. Qed.
End ExamplesNatural.
