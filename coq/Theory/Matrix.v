(* Theory/Matrix.v — C18: kingdon's matrix representation (Model/Matrix.v: matrix_rep, matrix_basis,
   asmatrix, frommatrix) is a faithful representation of the algebra.

     1. hom_ok A        the decidable blade-level check: shapes, every sign in {1,-1,0}, the key set is
                        closed under xor, M_I M_J = sgn(I,J) M_(I xor J) for every pair of canonical keys,
                        and column 0 of M_i is the i-th unit vector;
        C18_hom_le4     hom_ok holds in EVERY default algebra with 1 <= d <= 4 (all 120 signatures over
                        {1,-1,0}, start index 0 / 1 / 2), by enumeration and vm_compute.
     2. unbounded consequences of hom_ok A = true and NoDup (canon_keys A):
        asmatrix_entry, asmatrix_coeff_form   entry (r,c) of asmatrix x = sum_k coeff k x * M_k[r][c]
        asmatrix_col0, frommatrix_asmatrix, asmatrix_injective
        asmatrix_add / _sub / _neg / _scale, asmatrix_congr        (linearity)
        asmatrix_hom    asmatrix (gp x y) = asmatrix x @ asmatrix y
     3. custom bases: hom_ok is FALSE for the 2DPGA basis e1 e2 e0 (known defect), first failing pair.
     4. closed examples. *)
From Coq Require Import List ZArith Bool Ring Lia Permutation.
From KV Require Import Model.Matrix Theory.Sparse Theory.Product.
Import ListNotations.
Local Open Scope Z_scope.

(* ================= 0. finite sums over Z (instances of Theory/Sparse.v) ================= *)

Local Notation zsum := (Sparse.rsum 0 Z.add).
Local Notation ZT l := (l Z 0 1 Z.add Z.mul Z.sub Z.opp Zth) (only parsing).

Lemma zsum_ext {A} (f g : A -> Z) l :
  (forall a, In a l -> f a = g a) -> zsum (map f l) = zsum (map g l).
Proof. apply rsum_map_ext. Qed.

Lemma zsum_zero {A} (f : A -> Z) l : (forall a, In a l -> f a = 0) -> zsum (map f l) = 0.
Proof. apply (ZT rsum_map_zero). Qed.

Lemma zsum_add {A} (f g : A -> Z) l :
  zsum (map (fun a => f a + g a) l) = zsum (map f l) + zsum (map g l).
Proof. apply (ZT rsum_map_add). Qed.

Lemma zsum_scal_l {A} c (f : A -> Z) l : zsum (map (fun a => c * f a) l) = c * zsum (map f l).
Proof. apply (ZT rsum_map_scal_l). Qed.

Lemma zsum_scal_r {A} c (f : A -> Z) l : zsum (map (fun a => f a * c) l) = zsum (map f l) * c.
Proof. apply (ZT rsum_map_scal_r). Qed.

Lemma zsum_swap {A B} (f : A -> B -> Z) l1 l2 :
  zsum (map (fun a => zsum (map (fun b => f a b) l2)) l1)
  = zsum (map (fun b => zsum (map (fun a => f a b) l1)) l2).
Proof. apply (ZT rsum_swap). Qed.

Lemma zsum_delta (f : Z -> Z) k U :
  NoDup U -> zsum (map (fun k' => if Z.eqb k' k then f k' else 0) U) = if zin k U then f k else 0.
Proof. apply (ZT rsum_delta). Qed.

Lemma zsum_list_prod {A B} (f : A * B -> Z) l1 l2 :
  zsum (map f (list_prod l1 l2)) = zsum (map (fun a => zsum (map (fun b => f (a, b)) l2)) l1).
Proof. apply (ZT rsum_list_prod). Qed.

Lemma zsum_universe (g : Z -> Z -> Z) (x : mv Z) U :
  (forall k, g k 0 = 0) -> NoDup (keys x) -> NoDup U -> incl (keys x) U ->
  zsum (map (fun kv => g (fst kv) (snd kv)) x) = zsum (map (fun k => g k (coeff Zops k x)) U).
Proof. apply (ZT rsum_universe). Qed.

(* (sum_i p i) * (sum_j q j) = sum_i sum_j p i * q j *)
Lemma zsum_mul {A B} (p : A -> Z) (q : B -> Z) l1 l2 :
  zsum (map p l1) * zsum (map q l2) = zsum (map (fun i => zsum (map (fun j => p i * q j) l2)) l1).
Proof.
  rewrite <- zsum_scal_r. apply zsum_ext. intros i _. rewrite zsum_scal_l. reflexivity.
Qed.

(* ================= 1. entries of list-of-rows matrices ================= *)

Definition ent (m : mat) (r c : nat) : Z := nth c (nth r m []) 0.
(* an n x n matrix *)
Definition wfm (n : nat) (m : mat) : Prop := length m = n /\ Forall (fun row => length row = n) m.
Definition wf_matb (n : nat) (m : mat) : bool :=
  Nat.eqb (length m) n && forallb (fun row => Nat.eqb (length row) n) m.

Lemma wf_matb_wfm n m : wf_matb n m = true -> wfm n m.
Proof.
  unfold wf_matb, wfm. intros H. apply andb_true_iff in H. destruct H as [H1 H2].
  apply Nat.eqb_eq in H1. split; [exact H1|].
  apply Forall_forall. intros row Hrow. rewrite forallb_forall in H2.
  apply Nat.eqb_eq. apply H2. exact Hrow.
Qed.

Lemma nth_nil_Z c : nth c (@nil Z) 0 = 0.
Proof. destruct c; reflexivity. Qed.

Lemma nth_map_default {A B} (f : A -> B) l d d' r : f d = d' -> nth r (map f l) d' = f (nth r l d).
Proof. intros E. subst d'. apply map_nth. Qed.

Lemma wfm_row n m r : wfm n m -> (r < n)%nat -> length (nth r m []) = n.
Proof.
  intros [Hl Hf] Hr. rewrite Forall_forall in Hf. apply Hf. apply nth_In. lia.
Qed.

(* two n x n matrices with the same entries are equal *)
Lemma mat_ext n a b :
  wfm n a -> wfm n b ->
  (forall r c, (r < n)%nat -> (c < n)%nat -> ent a r c = ent b r c) -> a = b.
Proof.
  intros Ha Hb H. apply (nth_ext a b [] []).
  - destruct Ha as [Ha _], Hb as [Hb _]. lia.
  - intros r Hr. assert (Hrn : (r < n)%nat) by (destruct Ha as [Ha _]; lia).
    apply (nth_ext _ _ 0 0).
    + rewrite (wfm_row n a r Ha Hrn), (wfm_row n b r Hb Hrn). reflexivity.
    + intros c Hc. rewrite (wfm_row n a r Ha Hrn) in Hc. apply (H r c Hrn Hc).
Qed.

(* --- zero --- *)
Lemma wfm_zero n : wfm n (mat_zero n).
Proof.
  unfold wfm, mat_zero. split; [apply repeat_length|].
  apply Forall_forall. intros row Hrow. apply repeat_spec in Hrow. subst row. apply repeat_length.
Qed.

Lemma nth_repeat0 c n : nth c (repeat 0 n) 0 = 0.
Proof. revert c. induction n as [|n IH]; intros [|c]; cbn [repeat nth]; auto. Qed.

Lemma nth_repeat_row (row : list Z) c : nth c row 0 = 0 ->
  forall k r, nth c (nth r (repeat row k) []) 0 = 0.
Proof.
  intros Hrow. induction k as [|k IH]; intros [|r]; cbn [repeat nth].
  - apply nth_nil_Z.
  - apply nth_nil_Z.
  - exact Hrow.
  - apply IH.
Qed.

Lemma ent_zero n r c : ent (mat_zero n) r c = 0.
Proof. unfold ent, mat_zero. apply nth_repeat_row. apply nth_repeat0. Qed.

(* --- scaling --- *)
Lemma ent_scale s m r c : ent (mat_scale s m) r c = s * ent m r c.
Proof.
  unfold ent, mat_scale.
  rewrite (nth_map_default (map (Z.mul s)) m [] [] r eq_refl).
  apply (nth_map_default (Z.mul s)). lia.
Qed.

Lemma wfm_scale n s m : wfm n m -> wfm n (mat_scale s m).
Proof.
  unfold wfm, mat_scale. intros [Hl Hf]. split; [rewrite map_length; exact Hl|].
  apply Forall_forall. intros row Hrow. apply in_map_iff in Hrow. destruct Hrow as [row' [E Hrow']].
  subst row. rewrite map_length. rewrite Forall_forall in Hf. apply Hf. exact Hrow'.
Qed.

(* --- addition --- *)
Lemma vec_add_length u : forall v, length u = length v -> length (vec_add u v) = length u.
Proof.
  induction u as [|a u IH]; intros [|b v] H; cbn [vec_add length] in *; try lia.
  rewrite IH; lia.
Qed.

Lemma nth_vec_add u : forall v c, length u = length v ->
  nth c (vec_add u v) 0 = nth c u 0 + nth c v 0.
Proof.
  induction u as [|a u IH]; intros [|b v] c H; cbn [vec_add length] in *; try lia.
  - rewrite nth_nil_Z. reflexivity.
  - destruct c as [|c]; cbn [nth]; [reflexivity|]. apply IH. lia.
Qed.

Lemma mat_add_length a : forall b, length a = length b -> length (mat_add a b) = length a.
Proof.
  induction a as [|ra a IH]; intros [|rb b] H; cbn [mat_add length] in *; try lia.
  rewrite IH; lia.
Qed.

Lemma nth_mat_add a : forall b r, length a = length b ->
  nth r (mat_add a b) [] = vec_add (nth r a []) (nth r b []).
Proof.
  induction a as [|ra a IH]; intros [|rb b] r H; cbn [mat_add length] in *; try lia.
  - destruct r; reflexivity.
  - destruct r as [|r]; cbn [nth]; [reflexivity|]. apply IH. lia.
Qed.

Lemma wfm_add n a b : wfm n a -> wfm n b -> wfm n (mat_add a b).
Proof.
  intros Ha Hb. pose proof Ha as [Hla Hfa]. pose proof Hb as [Hlb Hfb].
  assert (Hl : length (mat_add a b) = n) by (rewrite mat_add_length; lia).
  split; [exact Hl|].
  apply Forall_forall. intros row Hrow.
  destruct (In_nth _ _ [] Hrow) as [r [Hr E]]. subst row. rewrite Hl in Hr.
  rewrite nth_mat_add by lia. rewrite vec_add_length.
  - apply (wfm_row n a r Ha Hr).
  - rewrite (wfm_row n a r Ha Hr), (wfm_row n b r Hb Hr). reflexivity.
Qed.

Lemma ent_add n a b r c : wfm n a -> wfm n b -> ent (mat_add a b) r c = ent a r c + ent b r c.
Proof.
  intros Ha Hb. unfold ent. pose proof Ha as [Hla _]. pose proof Hb as [Hlb _].
  rewrite nth_mat_add by lia. apply nth_vec_add.
  destruct (Nat.lt_ge_cases r n) as [Hr|Hr].
  - rewrite (wfm_row n a r Ha Hr), (wfm_row n b r Hb Hr). reflexivity.
  - rewrite !nth_overflow by lia. reflexivity.
Qed.

(* --- product --- *)
Lemma dot_zsum u : forall v n, length u = n -> length v = n ->
  dot u v = zsum (map (fun m => nth m u 0 * nth m v 0) (seq 0 n)).
Proof.
  induction u as [|a u IH]; intros [|b v] n Hu Hv; cbn [length] in *; subst n; try discriminate.
  - reflexivity.
  - cbn [dot seq map Sparse.rsum nth]. f_equal.
    rewrite (IH v (length u) eq_refl) by lia.
    rewrite <- seq_shift, map_map. reflexivity.
Qed.

Lemma nth_mat_col c m r : nth r (mat_col c m) 0 = ent m r c.
Proof. unfold mat_col, ent. apply (nth_map_default (fun row => nth c row 0)). apply nth_nil_Z. Qed.

Lemma mat_col_length c m : length (mat_col c m) = length m.
Proof. apply map_length. Qed.

Lemma ncols_wfm n m : wfm n m -> ncols m = n.
Proof.
  unfold ncols. intros [Hl Hf]. destruct m as [|row m]; cbn [hd length] in *; [exact Hl|].
  inversion Hf; assumption.
Qed.

Lemma nth_mat_T n m c : wfm n m -> (c < n)%nat -> nth c (mat_T m) [] = mat_col c m.
Proof.
  intros Hm Hc. unfold mat_T. rewrite (ncols_wfm n m Hm).
  rewrite (nth_indep _ [] (mat_col 0 m)) by (rewrite map_length, seq_length; exact Hc).
  rewrite (map_nth (fun c => mat_col c m) (seq 0 n) 0%nat c). rewrite seq_nth by exact Hc. reflexivity.
Qed.

Lemma mat_T_length n m : wfm n m -> length (mat_T m) = n.
Proof. intros Hm. unfold mat_T. rewrite map_length, seq_length. apply (ncols_wfm n m Hm). Qed.

Lemma nth_mat_mul a b r : (r < length a)%nat ->
  nth r (mat_mul a b) [] = map (dot (nth r a [])) (mat_T b).
Proof.
  intros Hr. unfold mat_mul. cbv zeta.
  rewrite (nth_indep _ [] (map (dot []) (mat_T b))) by (rewrite map_length; exact Hr).
  apply (map_nth (fun ra => map (dot ra) (mat_T b))).
Qed.

Lemma wfm_mul n a b : wfm n a -> wfm n b -> wfm n (mat_mul a b).
Proof.
  intros Ha Hb. pose proof Ha as [Hla _].
  assert (Hl : length (mat_mul a b) = n) by (unfold mat_mul; cbv zeta; rewrite map_length; exact Hla).
  split; [exact Hl|].
  apply Forall_forall. intros row Hrow.
  destruct (In_nth _ _ [] Hrow) as [r [Hr E]]. subst row. rewrite Hl in Hr.
  rewrite nth_mat_mul by lia. rewrite map_length. apply (mat_T_length n b Hb).
Qed.

Lemma ent_mul n a b r c : wfm n a -> wfm n b -> (r < n)%nat -> (c < n)%nat ->
  ent (mat_mul a b) r c = zsum (map (fun m => ent a r m * ent b m c) (seq 0 n)).
Proof.
  intros Ha Hb Hr Hc. pose proof Ha as [Hla _]. pose proof Hb as [Hlb _].
  unfold ent at 1. rewrite nth_mat_mul by lia.
  rewrite (nth_indep _ 0 (dot (nth r a []) [])) by (rewrite map_length, (mat_T_length n b Hb); exact Hc).
  rewrite (map_nth (dot (nth r a [])) (mat_T b) [] c).
  rewrite (nth_mat_T n b c Hb Hc).
  rewrite (dot_zsum _ _ n (wfm_row n a r Ha Hr)) by (rewrite mat_col_length; exact Hlb).
  apply zsum_ext. intros m _. rewrite nth_mat_col. reflexivity.
Qed.

(* --- boolean equality --- *)
Lemma list_eqb_true {A} (eqb : A -> A -> bool) :
  (forall a b, eqb a b = true -> a = b) -> forall l1 l2, list_eqb eqb l1 l2 = true -> l1 = l2.
Proof.
  intros Heq. induction l1 as [|a l1 IH]; intros [|b l2] H; cbn [list_eqb] in H; try discriminate.
  - reflexivity.
  - apply andb_true_iff in H. destruct H as [H1 H2]. rewrite (Heq a b H1), (IH l2 H2). reflexivity.
Qed.

Lemma zlist_eqb_true l1 l2 : list_eqb Z.eqb l1 l2 = true -> l1 = l2.
Proof. apply list_eqb_true. intros a b. apply Z.eqb_eq. Qed.

Lemma mat_eqb_true a b : mat_eqb a b = true -> a = b.
Proof. apply list_eqb_true. exact zlist_eqb_true. Qed.

(* ================= 2. the blade-level check ================= *)

Definition sign_okb (s : Z) : bool := Z.eqb s 1 || Z.eqb s (-1) || Z.eqb s 0.

(* the pair (I, J) of canonical keys: the sign is 1 / -1 / 0, I xor J is a canonical key, and
   M_i @ M_j = sgn(I, J) * M_t  for the positions i, j, t of I, J, I xor J in canon_keys *)
Definition pair_ok (A : alg) (M : list mat) (I J : Z) : bool :=
  sign_okb (sgn A I J) && zin (Z.lxor I J) (canon_keys A)
  && mat_eqb (mat_mul (basis_mat_in A M I) (basis_mat_in A M J))
             (mat_scale (sgn A I J) (basis_mat_in A M (Z.lxor I J))).

(* shapes (2^d keys, 2^d matrices, each 2^d x 2^d), every pair, and column 0 of M_i = e_i *)
Definition hom_ok (A : alg) : bool :=
  let K := canon_keys A in
  let M := matrix_basis A in
  let n := mat_dim A in
  Nat.eqb (length K) n && Nat.eqb (length M) n && forallb (wf_matb n) M
  && forallb (fun I => forallb (fun J => pair_ok A M I J) K) K
  && forallb (fun i => list_eqb Z.eqb (mat_col 0 (nth i M [])) (unit_vec n i)) (seq 0 n).

(* the first pair of canonical keys that fails (diagnosis) *)
Definition first_bad_pair (A : alg) : option (Z * Z) :=
  let M := matrix_basis A in
  find (fun IJ => negb (pair_ok A M (fst IJ) (snd IJ))) (list_prod (canon_keys A) (canon_keys A)).

(* --- all signatures over {1, -1, 0} of a given length --- *)
Fixpoint all_sigs (n : nat) : list (list Z) :=
  match n with O => [[]] | S m => flat_map (fun s => map (cons s) (all_sigs m)) [1; -1; 0] end.

Lemma all_sigs_complete sig :
  Forall (fun s => s = 1 \/ s = -1 \/ s = 0) sig -> In sig (all_sigs (length sig)).
Proof.
  induction sig as [|s sig IH]; intros H; cbn [length all_sigs].
  - left. reflexivity.
  - inversion H as [|? ? Hs Hr]; subst. apply in_flat_map. exists s. split.
    + cbn [In]. destruct Hs as [Hs|[Hs|Hs]]; subst s; auto.
    + apply in_map. apply IH. exact Hr.
Qed.

Definition check_dim (d : nat) : bool :=
  forallb (fun sig => forallb (fun st => hom_ok (mk_default sig st false)) [0; 1; 2]) (all_sigs d).

Lemma check_dim_1 : check_dim 1 = true. Proof. vm_compute. reflexivity. Qed.
Lemma check_dim_2 : check_dim 2 = true. Proof. vm_compute. reflexivity. Qed.
Lemma check_dim_3 : check_dim 3 = true. Proof. vm_cast_no_check (eq_refl true). Qed.
(* 81 signatures x 3 start indices x 256 pairs of 16 x 16 matrices: about 40 s (checked once, at Qed) *)
Lemma check_dim_4 : check_dim 4 = true. Proof. vm_cast_no_check (eq_refl true). Qed.

Lemma check_dim_sound d sig start :
  check_dim d = true -> length sig = d -> Forall (fun s => s = 1 \/ s = -1 \/ s = 0) sig ->
  (start = 0 \/ start = 1 \/ start = 2) -> hom_ok (mk_default sig start false) = true.
Proof.
  intros Hc Hl Hsig Hst. unfold check_dim in Hc. rewrite forallb_forall in Hc.
  subst d. specialize (Hc sig (all_sigs_complete sig Hsig)). rewrite forallb_forall in Hc.
  apply Hc. cbn [In]. destruct Hst as [H|[H|H]]; subst start; auto.
Qed.

(* C18, finite domain: in every default algebra of dimension 1..4 the matrix basis multiplies like
   the blades (with the signs of the sign table) and column 0 of M_i is e_i. *)
Theorem C18_hom_le4 : forall sig start,
  (1 <= length sig <= 4)%nat -> Forall (fun s => s = 1 \/ s = -1 \/ s = 0) sig ->
  (start = 0 \/ start = 1 \/ start = 2) -> hom_ok (mk_default sig start false) = true.
Proof.
  intros sig start Hl Hsig Hst.
  assert (Hd : length sig = 1%nat \/ length sig = 2%nat \/ length sig = 3%nat \/ length sig = 4%nat) by lia.
  destruct Hd as [Hd|[Hd|[Hd|Hd]]].
  - exact (check_dim_sound 1 sig start check_dim_1 Hd Hsig Hst).
  - exact (check_dim_sound 2 sig start check_dim_2 Hd Hsig Hst).
  - exact (check_dim_sound 3 sig start check_dim_3 Hd Hsig Hst).
  - exact (check_dim_sound 4 sig start check_dim_4 Hd Hsig Hst).
Qed.


(* the two branches of Algebra.matrix_basis (combinations of the generators for a default basis, products along the
   blade names for a custom basis) give the same matrices on every default algebra of dimension 1..4: the model's
   single definition (the blades branch) is faithful to both branches of the code *)
Definition branches_agree (d : nat) : bool :=
  forallb (fun sig => forallb (fun st => let A := mk_default sig st false in
                                         list_eqb mat_eqb (matrix_basis A) (matrix_basis_default_branch A)) [0; 1; 2]) (all_sigs d).
Lemma branches_agree_1 : branches_agree 1 = true. Proof. vm_compute. reflexivity. Qed.
Lemma branches_agree_2 : branches_agree 2 = true. Proof. vm_compute. reflexivity. Qed.
Lemma branches_agree_3 : branches_agree 3 = true. Proof. vm_cast_no_check (eq_refl true). Qed.
Lemma branches_agree_4 : branches_agree 4 = true. Proof. vm_cast_no_check (eq_refl true). Qed.

Theorem matrix_basis_default_branch_le4 : forall sig start,
  (1 <= length sig <= 4)%nat -> Forall (fun s => s = 1 \/ s = -1 \/ s = 0) sig ->
  (start = 0 \/ start = 1 \/ start = 2) ->
  matrix_basis (mk_default sig start false) = matrix_basis_default_branch (mk_default sig start false).
Proof.
  intros sig start Hl Hsig Hst.
  assert (Hgen : forall d, branches_agree d = true -> length sig = d ->
                 matrix_basis (mk_default sig start false) = matrix_basis_default_branch (mk_default sig start false)).
  { intros d Hc Hd. unfold branches_agree in Hc. rewrite forallb_forall in Hc. subst d.
    specialize (Hc sig (all_sigs_complete sig Hsig)). rewrite forallb_forall in Hc.
    assert (Hin : In start [0; 1; 2]) by (cbn [In]; destruct Hst as [H|[H|H]]; subst start; auto).
    specialize (Hc start Hin). cbv zeta in Hc.
    revert Hc. generalize (matrix_basis (mk_default sig start false)) (matrix_basis_default_branch (mk_default sig start false)).
    induction l as [|a l IH]; intros [|b l2] H; try discriminate; [reflexivity|].
    cbn [list_eqb] in H. apply andb_true_iff in H. destruct H as [H1 H2].
    apply mat_eqb_true in H1. subst b. f_equal. apply IH. exact H2. }
  assert (Hd : length sig = 1%nat \/ length sig = 2%nat \/ length sig = 3%nat \/ length sig = 4%nat) by lia.
  destruct Hd as [Hd|[Hd|[Hd|Hd]]].
  - exact (Hgen 1%nat branches_agree_1 Hd).
  - exact (Hgen 2%nat branches_agree_2 Hd).
  - exact (Hgen 3%nat branches_agree_3 Hd).
  - exact (Hgen 4%nat branches_agree_4 Hd).
Qed.

(* custom bases (after the repair of finding F10): the named algebras 2DPGA and 3DPGA and a basis with permuted
   generators and spellings satisfy the same blade-level check *)
Definition named_2dpga : res alg := mk_custom (sig_of_pqr 2 0 1) [[];[1];[2];[0];[2;0];[0;1];[1;2];[0;1;2]]%nat false.
Definition named_3dpga : res alg :=
  mk_custom (sig_of_pqr 3 0 1) [[];[1];[2];[3];[0];[0;1];[0;2];[0;3];[1;2];[3;1];[2;3];[0;3;2];[0;1;3];[0;2;1];[1;2;3];[0;1;2;3]]%nat false.
Definition custom_cl111 : res alg := mk_custom [1; -1; 0] [[];[3];[1];[2];[3;1];[1;2];[2;3];[2;3;1]]%nat false.
Definition res_hom_ok (r : res alg) : bool := match r with Ok A => hom_ok A | Err _ => false end.
Lemma hom_ok_named_custom : res_hom_ok named_2dpga = true /\ res_hom_ok named_3dpga = true /\ res_hom_ok custom_cl111 = true.
Proof. vm_compute. repeat split. Qed.

(* ================= 3. unbounded consequences of hom_ok ================= *)

(* zindex: the first position *)
Lemma zindex_some k l i : zindex k l = Some i -> (i < length l)%nat /\ nth i l 0 = k.
Proof.
  revert i. induction l as [|a l IH]; intros i H; cbn [zindex] in H; [discriminate|].
  destruct (Z.eqb a k) eqn:E.
  - inversion H; subst i. apply Z.eqb_eq in E. cbn [length nth]. split; [lia | exact E].
  - destruct (zindex k l) as [j|] eqn:Ej; cbn [option_map] in H; [|discriminate].
    inversion H; subst i. destruct (IH j eq_refl) as [H1 H2]. cbn [length nth]. split; [lia | exact H2].
Qed.

Lemma zindex_in k l : In k l -> exists i, zindex k l = Some i.
Proof.
  induction l as [|a l IH]; intros H; [destruct H|]. cbn [zindex].
  destruct (Z.eqb a k) eqn:E; [exists 0%nat; reflexivity|].
  destruct H as [H|H]; [subst a; rewrite Z.eqb_refl in E; discriminate|].
  destruct (IH H) as [i Hi]. exists (S i). rewrite Hi. reflexivity.
Qed.

Lemma zindex_nth l : NoDup l -> forall i, (i < length l)%nat -> zindex (nth i l 0) l = Some i.
Proof.
  intros Hl i Hi. destruct (zindex_in (nth i l 0) l (nth_In l 0 Hi)) as [j Hj].
  destruct (zindex_some _ _ _ Hj) as [Hjl Hjn].
  rewrite Hj. f_equal. apply (proj1 (NoDup_nth l 0) Hl j i Hjl Hi Hjn).
Qed.

Lemma nth_unit_vec n i r : (r < n)%nat -> nth r (unit_vec n i) 0 = if Nat.eqb r i then 1 else 0.
Proof.
  intros Hr. unfold unit_vec.
  rewrite (nth_indep _ 0 ((fun j => if Nat.eqb j i then 1 else 0) 0%nat))
    by (rewrite map_length, seq_length; exact Hr).
  rewrite (map_nth (fun j => if Nat.eqb j i then 1 else 0) (seq 0 n) 0%nat r).
  rewrite seq_nth by exact Hr. reflexivity.
Qed.

Lemma combine_map_self {A B} (f : A -> B) l : combine l (map f l) = map (fun a => (a, f a)) l.
Proof. induction l as [|a l IH]; cbn [map combine]; [reflexivity | rewrite IH; reflexivity]. Qed.

Lemma coeff_map_self (f : Z -> Z) l k :
  In k l -> coeff Zops k (map (fun a => (a, f a)) l) = f k.
Proof.
  induction l as [|a l IH]; intros H; [destruct H|]. cbn [map coeff].
  destruct (Z.eqb a k) eqn:E.
  - apply Z.eqb_eq in E. subst a. reflexivity.
  - destruct H as [H|H]; [subst a; rewrite Z.eqb_refl in E; discriminate | exact (IH H)].
Qed.

(* instances over Z of the coefficient theorems of Theory/Product.v *)
Lemma add_coeff_Z A (x y : mv Z) k : In k (canon_keys A) -> NoDup (keys x) -> NoDup (keys y) ->
  coeff Zops k (add Zops A x y) = coeff Zops k x + coeff Zops k y.
Proof. exact (add_coeff Z 0 1 Z.add Z.mul Z.sub Z.opp Zth A x y k). Qed.

Lemma sub_coeff_Z A (x y : mv Z) k : In k (canon_keys A) -> NoDup (keys x) -> NoDup (keys y) ->
  coeff Zops k (sub Zops A x y) = coeff Zops k x - coeff Zops k y.
Proof. exact (sub_coeff Z 0 1 Z.add Z.mul Z.sub Z.opp Zth A x y k). Qed.

Lemma neg_coeff_Z A (x : mv Z) k : In k (canon_keys A) -> NoDup (keys x) ->
  coeff Zops k (neg Zops A x) = - coeff Zops k x.
Proof. exact (neg_coeff Z 0 1 Z.add Z.mul Z.sub Z.opp Zth A x k). Qed.

Lemma gp_coeff_universe_Z A (x y : mv Z) U k :
  In k (canon_keys A) -> NoDup (keys x) -> NoDup (keys y) -> NoDup U ->
  incl (keys x) U -> incl (keys y) U ->
  coeff Zops k (gp Zops A x y)
  = zsum (map (fun kk => contrib 0 Z.mul Z.opp (sgn A) None Z.lxor k
                           ((fst kk, coeff Zops (fst kk) x), (snd kk, coeff Zops (snd kk) y)))
              (list_prod U U)).
Proof.
  intros Hk Hx Hy HU Hix Hiy. unfold gp.
  transitivity (coeff Zops k (raw_gp Zops A x y)).
  - exact (coeff_canon_sort_in Z 0 1 Z.add Z.mul Z.sub Z.opp A _ k Hk).
  - exact (product_coeff_universe Z 0 1 Z.add Z.mul Z.sub Z.opp Zth (sgn A) None Z.lxor
             x y U U k Hx Hy HU HU Hix Hiy).
Qed.

(* scalar multiple of a multivector (c * x keeps the keys) *)
Definition mv_scale (c : Z) (x : mv Z) : mv Z := map (fun kv => (fst kv, c * snd kv)) x.

Section Faithful.
  Variable A : alg.
  Hypothesis Hok : hom_ok A = true.
  Hypothesis Hnd : NoDup (canon_keys A).

  Local Notation K := (canon_keys A).
  Local Notation n := (mat_dim A).
  Local Notation B := (basis_mat A).

  (* --- unpacking the check --- *)
  Lemma hok_parts :
    length K = n /\ length (matrix_basis A) = n
    /\ (forall m, In m (matrix_basis A) -> wfm n m)
    /\ (forall I J, In I K -> In J K -> pair_ok A (matrix_basis A) I J = true)
    /\ (forall i, (i < n)%nat -> mat_col 0 (nth i (matrix_basis A) []) = unit_vec n i).
  Proof.
    pose proof Hok as H. unfold hom_ok in H. cbv zeta in H.
    apply andb_true_iff in H. destruct H as [H H5].
    apply andb_true_iff in H. destruct H as [H H4].
    apply andb_true_iff in H. destruct H as [H H3].
    apply andb_true_iff in H. destruct H as [H1 H2].
    apply Nat.eqb_eq in H1, H2. rewrite forallb_forall in H3, H4, H5.
    split; [exact H1|]. split; [exact H2|]. split; [|split].
    - intros m Hm. apply wf_matb_wfm. apply H3. exact Hm.
    - intros I J HI HJ. specialize (H4 I HI). rewrite forallb_forall in H4. apply H4. exact HJ.
    - intros i Hi. apply zlist_eqb_true. apply H5. apply in_seq. lia.
  Qed.

  Lemma lenK : length K = n. Proof. apply hok_parts. Qed.
  Lemma lenM : length (matrix_basis A) = n. Proof. apply hok_parts. Qed.

  Lemma wfm_basis k : wfm n (B k).
  Proof.
    unfold basis_mat, basis_mat_in. destruct (zindex k K) as [i|]; [|apply wfm_zero].
    destruct (Nat.lt_ge_cases i n) as [Hi|Hi].
    - apply hok_parts. apply nth_In. rewrite lenM. exact Hi.
    - rewrite nth_overflow by (rewrite lenM; exact Hi). apply wfm_zero.
  Qed.

  (* the multiplication table of the matrix basis *)
  Lemma basis_mul I J : In I K -> In J K ->
    mat_mul (B I) (B J) = mat_scale (sgn A I J) (B (Z.lxor I J)).
  Proof.
    intros HI HJ. destruct hok_parts as [_ [_ [_ [H _]]]]. specialize (H I J HI HJ).
    unfold pair_ok in H. apply andb_true_iff in H. destruct H as [_ H].
    apply mat_eqb_true. exact H.
  Qed.

  Lemma keys_xor_closed I J : In I K -> In J K -> In (Z.lxor I J) K.
  Proof.
    intros HI HJ. destruct hok_parts as [_ [_ [_ [H _]]]]. specialize (H I J HI HJ).
    unfold pair_ok in H. apply andb_true_iff in H. destruct H as [H _].
    apply andb_true_iff in H. destruct H as [_ H]. apply zin_true_iff. exact H.
  Qed.

  Lemma sgn_cases I J : In I K -> In J K -> sgn A I J = 1 \/ sgn A I J = -1 \/ sgn A I J = 0.
  Proof.
    intros HI HJ. destruct hok_parts as [_ [_ [_ [H _]]]]. specialize (H I J HI HJ).
    unfold pair_ok in H. apply andb_true_iff in H. destruct H as [H _].
    apply andb_true_iff in H. destruct H as [H _]. unfold sign_okb in H.
    apply orb_true_iff in H. destruct H as [H|H]; [apply orb_true_iff in H; destruct H as [H|H]|];
      apply Z.eqb_eq in H; auto.
  Qed.

  (* the check in terms of POSITIONS in canon_keys / matrix_basis (the lookup by key used in pair_ok
     finds the position, because the keys are pairwise distinct) *)
  Lemma basis_mat_nth i : (i < n)%nat -> B (nth i K 0) = nth i (matrix_basis A) [].
  Proof.
    intros Hi. unfold basis_mat, basis_mat_in.
    rewrite (zindex_nth K Hnd i) by (rewrite lenK; exact Hi).
    apply nth_indep. rewrite lenM. exact Hi.
  Qed.

  Theorem hom_ok_positions i j t : (i < n)%nat -> (j < n)%nat -> (t < n)%nat ->
    nth t K 0 = Z.lxor (nth i K 0) (nth j K 0) ->
    mat_mul (nth i (matrix_basis A) []) (nth j (matrix_basis A) [])
    = mat_scale (sgn A (nth i K 0) (nth j K 0)) (nth t (matrix_basis A) [])
    /\ mat_col 0 (nth i (matrix_basis A) []) = unit_vec n i.
  Proof.
    intros Hi Hj Ht E. split; [|apply hok_parts; exact Hi].
    rewrite <- !basis_mat_nth by assumption. rewrite E.
    apply basis_mul; apply nth_In; rewrite lenK; assumption.
  Qed.

  (* column 0 of the basis matrix of the key at position r' is e_r' *)
  Lemma basis_col0 k r : In k K -> (r < n)%nat ->
    ent (B k) r 0 = if Z.eqb k (nth r K 0) then 1 else 0.
  Proof.
    intros Hk Hr. destruct (zindex_in k K Hk) as [i Hi].
    destruct (zindex_some _ _ _ Hi) as [Hil Hin]. rewrite lenK in Hil.
    unfold basis_mat, basis_mat_in. rewrite Hi. cbv beta iota.
    rewrite (nth_indep _ (mat_zero n) []) by (rewrite lenM; exact Hil).
    rewrite <- nth_mat_col.
    destruct hok_parts as [_ [_ [_ [_ H]]]]. rewrite (H i Hil), (nth_unit_vec n i r Hr).
    destruct (Nat.eqb r i) eqn:E.
    - apply Nat.eqb_eq in E. subst r. rewrite Hin, Z.eqb_refl. reflexivity.
    - destruct (Z.eqb k (nth r K 0)) eqn:E2; [|reflexivity].
      apply Z.eqb_eq in E2. apply Nat.eqb_neq in E. exfalso. apply E.
      apply (proj1 (NoDup_nth K 0) Hnd r i); rewrite ?lenK; try assumption. congruence.
  Qed.

  (* --- entries of asmatrix --- *)
  Local Notation step := (fun (acc : mat) (kv : Z * Z) => mat_add acc (mat_scale (snd kv) (B (fst kv)))).

  Lemma asmatrix_fold x : asmatrix A x = fold_left step x (mat_zero n).
  Proof. reflexivity. Qed.

  Lemma fold_step_spec (x : mv Z) : forall acc, wfm n acc ->
    wfm n (fold_left step x acc)
    /\ forall r c, ent (fold_left step x acc) r c
                   = ent acc r c + zsum (map (fun kv => snd kv * ent (B (fst kv)) r c) x).
  Proof.
    induction x as [|[k v] x IH]; intros acc Hacc; cbn [fold_left map Sparse.rsum].
    - split; [exact Hacc | intros r c; ring].
    - assert (Hs : wfm n (mat_scale v (B k))) by (apply wfm_scale, wfm_basis).
      destruct (IH (mat_add acc (mat_scale (snd (k, v)) (B (fst (k, v)))))) as [H1 H2].
      + cbn [fst snd]. apply wfm_add; assumption.
      + split; [exact H1|]. intros r c. rewrite H2. cbn [fst snd].
        rewrite (ent_add n) by assumption. rewrite ent_scale. ring.
  Qed.

  Lemma wfm_asmatrix x : wfm n (asmatrix A x).
  Proof. rewrite asmatrix_fold. apply fold_step_spec. apply wfm_zero. Qed.

  (* entry (r, c) as the sum over the STORED entries (no hypothesis on x) *)
  Theorem asmatrix_entry x r c :
    ent (asmatrix A x) r c = zsum (map (fun kv => snd kv * ent (B (fst kv)) r c) x).
  Proof.
    rewrite asmatrix_fold. destruct (fold_step_spec x (mat_zero n) (wfm_zero n)) as [_ H].
    rewrite H, ent_zero. ring.
  Qed.

  (* linearity on the coefficient level: entry (r, c) = sum over the canonical keys of
     coefficient * entry of the basis matrix *)
  Theorem asmatrix_coeff_form x r c :
    NoDup (keys x) -> incl (keys x) K ->
    ent (asmatrix A x) r c = zsum (map (fun k => coeff Zops k x * ent (B k) r c) K).
  Proof.
    intros Hx Hi. rewrite asmatrix_entry.
    apply (zsum_universe (fun k v => v * ent (B k) r c) x K); try assumption.
    intros k. ring.
  Qed.

  (* asmatrix only depends on the coefficients *)
  Theorem asmatrix_congr x y :
    NoDup (keys x) -> incl (keys x) K -> NoDup (keys y) -> incl (keys y) K ->
    (forall k, In k K -> coeff Zops k x = coeff Zops k y) -> asmatrix A x = asmatrix A y.
  Proof.
    intros Hx Hix Hy Hiy E. apply (mat_ext n); try apply wfm_asmatrix.
    intros r c _ _. rewrite !asmatrix_coeff_form by assumption.
    apply zsum_ext. intros k Hk. rewrite (E k Hk). reflexivity.
  Qed.

  (* --- column 0, frommatrix, injectivity --- *)
  Theorem asmatrix_col0 x :
    NoDup (keys x) -> incl (keys x) K ->
    mat_col 0 (asmatrix A x) = map (fun k => coeff Zops k x) K.
  Proof.
    intros Hx Hi. pose proof (wfm_asmatrix x) as [Hl _].
    apply (nth_ext _ _ 0 0).
    - rewrite mat_col_length, map_length, lenK. exact Hl.
    - intros r Hr. rewrite mat_col_length, Hl in Hr.
      rewrite nth_mat_col, (asmatrix_coeff_form x r 0%nat Hx Hi).
      rewrite (nth_indep _ 0 ((fun k => coeff Zops k x) 0)) by (rewrite map_length, lenK; exact Hr).
      rewrite (map_nth (fun k => coeff Zops k x) K 0 r).
      transitivity (zsum (map (fun k => if Z.eqb k (nth r K 0) then coeff Zops k x else 0) K)).
      + apply zsum_ext. intros k Hk. rewrite (basis_col0 k r Hk Hr).
        destruct (Z.eqb k (nth r K 0)); ring.
      + rewrite (zsum_delta (fun k => coeff Zops k x) (nth r K 0) K Hnd).
        assert (Hin : In (nth r K 0) K) by (apply nth_In; rewrite lenK; exact Hr).
        apply zin_true_iff in Hin. rewrite Hin. reflexivity.
  Qed.

  (* frommatrix (asmatrix x) is the full multivector of the coefficients of x *)
  Theorem frommatrix_asmatrix_full x :
    NoDup (keys x) -> incl (keys x) K ->
    frommatrix A (asmatrix A x) = map (fun k => (k, coeff Zops k x)) K.
  Proof.
    intros Hx Hi. unfold frommatrix. rewrite (asmatrix_col0 x Hx Hi). apply combine_map_self.
  Qed.

  Theorem frommatrix_asmatrix x k :
    NoDup (keys x) -> incl (keys x) K -> In k K ->
    coeff Zops k (frommatrix A (asmatrix A x)) = coeff Zops k x.
  Proof.
    intros Hx Hi Hk. rewrite (frommatrix_asmatrix_full x Hx Hi).
    apply (coeff_map_self (fun k => coeff Zops k x)). exact Hk.
  Qed.

  Theorem asmatrix_injective x y :
    NoDup (keys x) -> incl (keys x) K -> NoDup (keys y) -> incl (keys y) K ->
    asmatrix A x = asmatrix A y -> forall k, coeff Zops k x = coeff Zops k y.
  Proof.
    intros Hx Hix Hy Hiy E k.
    destruct (in_dec Z.eq_dec k K) as [Hk|Hk].
    - rewrite <- (frommatrix_asmatrix x k Hx Hix Hk), <- (frommatrix_asmatrix y k Hy Hiy Hk), E.
      reflexivity.
    - unfold Zops. rewrite !coeff_notin; [reflexivity | |]; intros H; apply Hk; auto.
  Qed.

  (* --- linearity --- *)
  Lemma sorted_keys_ok (d : mv Z) : NoDup (keys (canon_sort A d)) /\ incl (keys (canon_sort A d)) K.
  Proof. split; [apply NoDup_keys_canon_sort; exact Hnd | apply keys_canon_sort_incl]. Qed.

  Theorem asmatrix_add x y :
    NoDup (keys x) -> incl (keys x) K -> NoDup (keys y) -> incl (keys y) K ->
    asmatrix A (add Zops A x y) = mat_add (asmatrix A x) (asmatrix A y).
  Proof.
    intros Hx Hix Hy Hiy.
    apply (mat_ext n); [apply wfm_asmatrix | apply wfm_add; apply wfm_asmatrix |].
    intros r c _ _. rewrite (ent_add n) by apply wfm_asmatrix.
    rewrite (asmatrix_coeff_form x r c Hx Hix), (asmatrix_coeff_form y r c Hy Hiy).
    rewrite asmatrix_coeff_form by (unfold add; apply sorted_keys_ok).
    rewrite <- zsum_add. apply zsum_ext. intros k Hk.
    rewrite (add_coeff_Z A x y k Hk Hx Hy). ring.
  Qed.

  Theorem asmatrix_sub x y :
    NoDup (keys x) -> incl (keys x) K -> NoDup (keys y) -> incl (keys y) K ->
    asmatrix A (sub Zops A x y) = mat_add (asmatrix A x) (mat_scale (-1) (asmatrix A y)).
  Proof.
    intros Hx Hix Hy Hiy.
    apply (mat_ext n); [apply wfm_asmatrix | apply wfm_add; [|apply wfm_scale]; apply wfm_asmatrix |].
    intros r c _ _. rewrite (ent_add n) by ((try apply wfm_scale); apply wfm_asmatrix).
    rewrite ent_scale.
    rewrite (asmatrix_coeff_form x r c Hx Hix), (asmatrix_coeff_form y r c Hy Hiy).
    rewrite asmatrix_coeff_form by (unfold sub; apply sorted_keys_ok).
    rewrite <- zsum_scal_l, <- zsum_add. apply zsum_ext. intros k Hk.
    rewrite (sub_coeff_Z A x y k Hk Hx Hy). ring.
  Qed.

  Theorem asmatrix_neg x :
    NoDup (keys x) -> incl (keys x) K ->
    asmatrix A (neg Zops A x) = mat_scale (-1) (asmatrix A x).
  Proof.
    intros Hx Hix.
    apply (mat_ext n); [apply wfm_asmatrix | apply wfm_scale; apply wfm_asmatrix |].
    intros r c _ _. rewrite ent_scale, (asmatrix_coeff_form x r c Hx Hix).
    rewrite asmatrix_coeff_form by (unfold neg; apply sorted_keys_ok).
    rewrite <- zsum_scal_l. apply zsum_ext. intros k Hk.
    rewrite (neg_coeff_Z A x k Hk Hx). ring.
  Qed.

  (* homogeneity: no hypothesis on x at all *)
  Theorem asmatrix_scale c x : asmatrix A (mv_scale c x) = mat_scale c (asmatrix A x).
  Proof.
    apply (mat_ext n); [apply wfm_asmatrix | apply wfm_scale; apply wfm_asmatrix |].
    intros r c' _ _. rewrite ent_scale, !asmatrix_entry. unfold mv_scale. rewrite map_map.
    rewrite <- zsum_scal_l. apply zsum_ext. intros [k v] _. cbn [fst snd]. ring.
  Qed.

  (* --- multiplicativity --- *)
  Lemma contrib_gp k I J a b : In I K -> In J K ->
    contrib 0 Z.mul Z.opp (sgn A) None Z.lxor k ((I, a), (J, b))
    = if Z.eqb (Z.lxor I J) k then a * b * sgn A I J else 0.
  Proof.
    intros HI HJ. unfold contrib, active, accepts.
    destruct (Z.eqb (Z.lxor I J) k); destruct (sgn_cases I J HI HJ) as [E|[E|E]]; rewrite E;
      cbn [Z.eqb Z.ltb Z.compare negb andb]; ring.
  Qed.

  Theorem asmatrix_hom x y :
    NoDup (keys x) -> incl (keys x) K -> NoDup (keys y) -> incl (keys y) K ->
    asmatrix A (gp Zops A x y) = mat_mul (asmatrix A x) (asmatrix A y).
  Proof.
    intros Hx Hix Hy Hiy.
    apply (mat_ext n); [apply wfm_asmatrix | apply wfm_mul; apply wfm_asmatrix |].
    intros r c Hr Hc.
    set (a := fun k => coeff Zops k x). set (b := fun k => coeff Zops k y).
    (* both sides are  sum_I sum_J a_I b_J sgn(I,J) M_(I xor J)[r][c] *)
    transitivity (zsum (map (fun I => zsum (map (fun J =>
                    a I * b J * sgn A I J * ent (B (Z.lxor I J)) r c) K)) K)).
    - rewrite asmatrix_coeff_form by (unfold gp; apply sorted_keys_ok).
      transitivity (zsum (map (fun k => zsum (map (fun I => zsum (map (fun J =>
                      (if Z.eqb (Z.lxor I J) k then a I * b J * sgn A I J else 0) * ent (B k) r c)
                      K)) K)) K)).
      + apply zsum_ext. intros k Hk.
        rewrite (gp_coeff_universe_Z A x y K k Hk Hx Hy Hnd Hix Hiy).
        rewrite zsum_list_prod, <- zsum_scal_r. apply zsum_ext. intros I HI.
        rewrite <- zsum_scal_r. apply zsum_ext. intros J HJ. cbn [fst snd].
        rewrite (contrib_gp k I J _ _ HI HJ). reflexivity.
      + rewrite zsum_swap. apply zsum_ext. intros I HI.
        rewrite zsum_swap. apply zsum_ext. intros J HJ.
        transitivity (zsum (map (fun k => if Z.eqb k (Z.lxor I J)
                                          then (fun k => a I * b J * sgn A I J * ent (B k) r c) k
                                          else 0) K)).
        * apply zsum_ext. intros k _. rewrite (Z.eqb_sym k).
          destruct (Z.eqb (Z.lxor I J) k); ring.
        * rewrite (zsum_delta _ (Z.lxor I J) K Hnd).
          rewrite (proj2 (zin_true_iff _ _) (keys_xor_closed I J HI HJ)). reflexivity.
    - symmetry. rewrite (ent_mul n) by (try apply wfm_asmatrix; assumption).
      transitivity (zsum (map (fun m => zsum (map (fun I => zsum (map (fun J =>
                      (a I * ent (B I) r m) * (b J * ent (B J) m c)) K)) K)) (seq 0 n))).
      + apply zsum_ext. intros m _.
        rewrite (asmatrix_coeff_form x r m Hx Hix), (asmatrix_coeff_form y m c Hy Hiy).
        apply zsum_mul.
      + rewrite zsum_swap. apply zsum_ext. intros I HI.
        rewrite zsum_swap. apply zsum_ext. intros J HJ.
        transitivity (a I * b J * zsum (map (fun m => ent (B I) r m * ent (B J) m c) (seq 0 n))).
        * rewrite <- zsum_scal_l. apply zsum_ext. intros m _. ring.
        * rewrite <- (ent_mul n) by (try apply wfm_basis; assumption).
          rewrite (basis_mul I J HI HJ), ent_scale. ring.
  Qed.
End Faithful.

(* ================= 4. the consequences in every default algebra with 1 <= d <= 4 ================= *)

Fixpoint znodupb_m (l : list Z) : bool :=
  match l with [] => true | x :: r => negb (zin x r) && znodupb_m r end.

Lemma znodupb_m_sound l : znodupb_m l = true -> NoDup l.
Proof.
  induction l as [|x r IH]; cbn [znodupb_m]; intros H; [constructor|].
  apply andb_true_iff in H. destruct H as [H1 H2]. apply negb_true_iff, zin_false_iff in H1.
  constructor; [exact H1 | exact (IH H2)].
Qed.

Definition check_nodup (d : nat) : bool :=
  forallb (fun sig => forallb (fun st => znodupb_m (canon_keys (mk_default sig st false))) [0; 1; 2])
          (all_sigs d).

Lemma check_nodup_le4 : forallb check_nodup [1; 2; 3; 4]%nat = true.
Proof. vm_compute. reflexivity. Qed.

Lemma canon_keys_NoDup_le4 sig start :
  (1 <= length sig <= 4)%nat -> Forall (fun s => s = 1 \/ s = -1 \/ s = 0) sig ->
  (start = 0 \/ start = 1 \/ start = 2) -> NoDup (canon_keys (mk_default sig start false)).
Proof.
  intros Hl Hsig Hst. apply znodupb_m_sound.
  pose proof check_nodup_le4 as H. rewrite forallb_forall in H.
  assert (Hd : In (length sig) [1; 2; 3; 4]%nat) by (cbn [In]; lia).
  specialize (H _ Hd). unfold check_nodup in H. rewrite forallb_forall in H.
  specialize (H sig (all_sigs_complete sig Hsig)). rewrite forallb_forall in H.
  apply H. cbn [In]. destruct Hst as [E|[E|E]]; subst start; auto.
Qed.

(* C18 for all multivectors of all default algebras with 1 <= d <= 4: asmatrix is multiplicative,
   additive, its column 0 holds the coefficients in canonical order, and it is injective *)
Theorem C18_faithful_le4 sig start (A := mk_default sig start false) (x y : mv Z) :
  (1 <= length sig <= 4)%nat -> Forall (fun s => s = 1 \/ s = -1 \/ s = 0) sig ->
  (start = 0 \/ start = 1 \/ start = 2) ->
  NoDup (keys x) -> incl (keys x) (canon_keys A) -> NoDup (keys y) -> incl (keys y) (canon_keys A) ->
  asmatrix A (gp Zops A x y) = mat_mul (asmatrix A x) (asmatrix A y)
  /\ asmatrix A (add Zops A x y) = mat_add (asmatrix A x) (asmatrix A y)
  /\ mat_col 0 (asmatrix A x) = map (fun k => coeff Zops k x) (canon_keys A)
  /\ frommatrix A (asmatrix A x) = map (fun k => (k, coeff Zops k x)) (canon_keys A)
  /\ (asmatrix A x = asmatrix A y -> forall k, coeff Zops k x = coeff Zops k y).
Proof.
  intros Hl Hsig Hst Hx Hix Hy Hiy.
  pose proof (C18_hom_le4 sig start Hl Hsig Hst) as Hok.
  pose proof (canon_keys_NoDup_le4 sig start Hl Hsig Hst) as Hnd.
  fold A in Hok, Hnd.
  split; [apply asmatrix_hom; assumption|].
  split; [apply asmatrix_add; assumption|].
  split; [apply asmatrix_col0; assumption|].
  split; [apply frommatrix_asmatrix_full; assumption|].
  apply asmatrix_injective; assumption.
Qed.

(* ================= 5. custom bases ================= *)

(* Algebra(2, 0, 1, basis=['e','e1','e2','e0','e20','e01','e12','e012']).  Before the repair of finding F10 the
   matrix basis of a custom algebra was built by the combinations branch (ordered by signature index, e0 first)
   while asmatrix pairs matrices and canonical keys by position: 34 of the 64 blade pairs failed.  The repaired
   code builds every blade matrix along its name; the check passes. *)
Definition pga2d_custom : res alg :=
  mk_custom (sig_of_pqr 2 0 1) [[]; [1]; [2]; [0]; [2; 0]; [0; 1]; [1; 2]; [0; 1; 2]]%nat false.

Example pga2d_custom_keys :
  (A <- pga2d_custom ;; Ok (canon_keys A, a_sig A, a_start A)) = Ok ([0; 1; 2; 4; 6; 5; 3; 7], [0; 1; 1], 0).
Proof. vm_compute. reflexivity. Qed.

Example hom_ok_pga2d_custom : (A <- pga2d_custom ;; Ok (hom_ok A)) = Ok true.
Proof. vm_compute. reflexivity. Qed.

(* the regression: with the combinations branch (what the code used before the repair) 34 of the 64 pairs fail *)
Example hom_ok_pga2d_custom_old_branch_count :
  (A <- pga2d_custom ;;
   Ok (length (filter (fun IJ => negb (pair_ok A (matrix_basis_default_branch A) (fst IJ) (snd IJ)))
                      (list_prod (canon_keys A) (canon_keys A))))) = Ok 34%nat.
Proof. vm_compute. reflexivity. Qed.

(* on the level of multivectors: (e1 * e1).asmatrix() = e1.asmatrix() @ e1.asmatrix() = identity *)
Example asmatrix_hom_pga2d_custom :
  (A <- pga2d_custom ;;
   Ok (gp Zops A [(1, 1)] [(1, 1)],
       mat_eqb (asmatrix A (gp Zops A [(1, 1)] [(1, 1)])) (mat_mul (asmatrix A [(1, 1)]) (asmatrix A [(1, 1)]))))
  = Ok ([(0, 1)], true).
Proof. vm_compute. reflexivity. Qed.

(* the default 2DPGA basis (e0 e1 e2) passes *)
Example hom_ok_pga2d_default : hom_ok (mk_default (sig_of_pqr 2 0 1) 0 false) = true.
Proof. vm_compute. reflexivity. Qed.

(* ================= 6. closed examples ================= *)

Example hom_ok_ex : hom_ok (mk_default [1; -1; 0] 1 false) = true.
Proof. vm_compute. reflexivity. Qed.

(* d = 5 is outside the theorem but the check still evaluates (1024 pairs of 32 x 32 matrices) *)
Example hom_ok_ex5 : hom_ok (mk_default [1; -1; 0; 1; -1] 1 false) = true.
Proof. vm_compute. reflexivity. Qed.

Example matrix_rep_ex :
  matrix_rep [1; -1]
  = [ [[1; 0; 0; 0]; [0; 1; 0; 0]; [0; 0; 1; 0]; [0; 0; 0; 1]];
      [[0; 1; 0; 0]; [1; 0; 0; 0]; [0; 0; 0; 1]; [0; 0; 1; 0]];
      [[0; 0; -1; 0]; [0; 0; 0; 1]; [1; 0; 0; 0]; [0; -1; 0; 0]];
      [[0; 0; 0; 1]; [0; 0; -1; 0]; [0; -1; 0; 0]; [1; 0; 0; 0]] ].
Proof. vm_compute. reflexivity. Qed.

(* Cl(1,1,1), keys 0 = 1, 1 = e1, 2 = e2, 4 = e3, 3 = e12, 5 = e13, 6 = e23, 7 = e123:
   x = 2 + 3 e1 - e23, y = e2 + 5 e3 + 4 e12 (stored out of canonical order) *)
Definition A111 : alg := mk_default [1; -1; 0] 1 false.
Definition x_ex : mv Z := [(6, -1); (0, 2); (1, 3)].
Definition y_ex : mv Z := [(2, 1); (4, 5); (3, 4)].

Example gp_ex : gp Zops A111 x_ex y_ex = [(2, 14); (4, 9); (3, 11); (5, 11)].
Proof. vm_compute. reflexivity. Qed.

Example asmatrix_ex :
  asmatrix A111 x_ex
  = [[2; 3; 0; 0; 0; 0; 0; 0]; [3; 2; 0; 0; 0; 0; 0; 0]; [0; 0; 2; 0; 3; 0; 0; 0];
     [0; 0; -1; 2; 0; 3; 0; 0]; [0; 0; 3; 0; 2; 0; 0; 0]; [0; 0; 0; 3; -1; 2; 0; 0];
     [-1; 0; 0; 0; 0; 0; 2; 3]; [0; -1; 0; 0; 0; 0; 3; 2]].
Proof. vm_compute. reflexivity. Qed.

Example asmatrix_product_ex :
  asmatrix A111 (gp Zops A111 x_ex y_ex) = mat_mul (asmatrix A111 x_ex) (asmatrix A111 y_ex)
  /\ mat_col 0 (asmatrix A111 (gp Zops A111 x_ex y_ex)) = [0; 0; 14; 9; 11; 11; 0; 0].
Proof. vm_compute. split; reflexivity. Qed.

(* the same product through the general theorem: its hypotheses are satisfiable *)
Example asmatrix_hom_ex :
  asmatrix A111 (gp Zops A111 x_ex y_ex) = mat_mul (asmatrix A111 x_ex) (asmatrix A111 y_ex).
Proof.
  apply asmatrix_hom.
  - apply hom_ok_ex.
  - apply znodupb_m_sound. vm_compute. reflexivity.
  - apply znodupb_m_sound. vm_compute. reflexivity.
  - intros k Hk. vm_compute in Hk |- *. tauto.
  - apply znodupb_m_sound. vm_compute. reflexivity.
  - intros k Hk. vm_compute in Hk |- *. tauto.
Qed.

Example frommatrix_ex :
  frommatrix A111 (asmatrix A111 x_ex) = [(0, 2); (1, 3); (2, 0); (4, 0); (3, 0); (5, 0); (6, -1); (7, 0)].
Proof. vm_compute. reflexivity. Qed.
