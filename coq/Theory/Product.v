(* Theory/Product.v — coefficient theory of kingdon's generated operators (Model/Codegen.v) over an
   ABSTRACT commutative ring:
     1. product_coeff      every coefficient of codegen_product is the sum of the contributions of
                           all pairs of stored entries (no hypothesis on the operands),
     2. product_keys       which keys are generated, and they are pairwise distinct,
     3. product_coeff_universe / product_congr   storage independence,
     4. add / sub / neg / involutions / Hodge duals: coefficients, keys, congruence,
     5. the same for the canonically re-sorted operators (gp op ip ... unhodge),
     6. closed examples over Z.
   Same conventions as Theory/Sparse.v: ring = Section variables + ring_theory,
   O := mkOps R radd rsub rmul ropp rO rI. *)
From Coq Require Import List ZArith Bool Ring Lia Permutation.
From KV Require Import Model.Codegen Theory.Sparse.
Import ListNotations.

(* ---------- ring-independent part of one loop iteration ---------- *)

(* filter_func is None, or it accepts (kx, ky, key_out) *)
Definition accepts (filt : option (Z -> Z -> Z -> bool)) (kx ky ko : Z) : bool :=
  match filt with Some f => f kx ky ko | None => true end.

(* the pair (kx, ky) produces a term: sign not 0 and not filtered out *)
Definition active (sfun : Z -> Z -> Z) (filt : option (Z -> Z -> Z -> bool)) (kout : Z -> Z -> Z)
           (kx ky : Z) : bool :=
  negb (Z.eqb (sfun kx ky) 0) && accepts filt kx ky (kout kx ky).

Lemma active_true_iff sfun filt kout kx ky :
  active sfun filt kout kx ky = true
  <-> sfun kx ky <> 0%Z /\ accepts filt kx ky (kout kx ky) = true.
Proof.
  unfold active. rewrite andb_true_iff, negb_true_iff, Z.eqb_neq. reflexivity.
Qed.

Lemma Zsub_inj (p a b : Z) : Z.sub p a = Z.sub p b -> a = b.
Proof. lia. Qed.

Lemma NoDup_map_inj {A B} (f : A -> B) (l : list A) :
  (forall a b, f a = f b -> a = b) -> NoDup l -> NoDup (map f l).
Proof.
  intros Hf Hl. induction Hl as [|a l Ha Hl IH]; cbn [map].
  - constructor.
  - constructor; [|exact IH]. intros Hin. apply in_map_iff in Hin.
    destruct Hin as [b [E Hb]]. apply Hf in E. subst b. apply Ha. exact Hb.
Qed.

Section Product.
  Variable R : Type.
  Variables (rO rI : R) (radd rmul rsub : R -> R -> R) (ropp : R -> R).
  Hypothesis Rth : ring_theory rO rI radd rmul rsub ropp (@eq R).
  Add Ring Rring : Rth.
  Local Notation O := (mkOps R radd rsub rmul ropp rO rI).
  Local Notation "a + b" := (radd a b).
  Local Notation "a * b" := (rmul a b).
  Local Notation "a - b" := (rsub a b).
  Local Notation "- a" := (ropp a).
  Local Notation rsum := (Sparse.rsum rO radd).
  Local Notation equiv := (Sparse.equiv rO rI radd rmul rsub ropp).
  Local Infix "==" := equiv (at level 70, no associativity).
  (* lemmas of Sparse.v whose proofs use the ring axioms *)
  Local Notation RT l := (l R rO rI radd rmul rsub ropp Rth) (only parsing).

  Ltac ops := cbn [o_add o_sub o_mul o_neg o_zero o_one].

  (* ================= 1. the coefficient formula ================= *)

  (* what one pair of stored entries contributes to the output blade K *)
  Definition contrib (sfun : Z -> Z -> Z) (filt : option (Z -> Z -> Z -> bool)) (kout : Z -> Z -> Z)
             (K : Z) (p : (Z * R) * (Z * R)) : R :=
    let '((kx, vx), (ky, vy)) := p in
    if active sfun filt kout kx ky && Z.eqb (kout kx ky) K
    then (if Z.ltb 0 (sfun kx ky) then vx * vy else - (vx * vy))
    else rO.

  (* the same, case by case as in the task statement *)
  Lemma contrib_cases sfun filt kout K kx vx ky vy :
    contrib sfun filt kout K ((kx, vx), (ky, vy)) =
      if Z.eqb (sfun kx ky) 0 then rO
      else if negb (accepts filt kx ky (kout kx ky)) then rO
      else if negb (Z.eqb (kout kx ky) K) then rO
      else if Z.ltb 0 (sfun kx ky) then vx * vy else - (vx * vy).
  Proof.
    unfold contrib, active.
    destruct (Z.eqb (sfun kx ky) 0); cbn [negb andb]; [reflexivity|].
    destruct (accepts filt kx ky (kout kx ky)); cbn [negb andb]; [|reflexivity].
    destruct (Z.eqb (kout kx ky) K); reflexivity.
  Qed.

  Lemma contrib_zero_l sfun filt kout K kx ky vy :
    contrib sfun filt kout K ((kx, rO), (ky, vy)) = rO.
  Proof.
    unfold contrib. destruct (active sfun filt kout kx ky && Z.eqb (kout kx ky) K); [|reflexivity].
    destruct (Z.ltb 0 (sfun kx ky)); ring.
  Qed.

  Lemma contrib_zero_r sfun filt kout K kx vx ky :
    contrib sfun filt kout K ((kx, vx), (ky, rO)) = rO.
  Proof.
    unfold contrib. destruct (active sfun filt kout kx ky && Z.eqb (kout kx ky) K); [|reflexivity].
    destruct (Z.ltb 0 (sfun kx ky)); ring.
  Qed.

  (* contrib is additive and homogeneous in each value (bilinearity of every generated product) *)
  Lemma contrib_add_l sfun filt kout K kx v1 v2 ky vy :
    contrib sfun filt kout K ((kx, v1 + v2), (ky, vy))
    = contrib sfun filt kout K ((kx, v1), (ky, vy)) + contrib sfun filt kout K ((kx, v2), (ky, vy)).
  Proof.
    unfold contrib. destruct (active sfun filt kout kx ky && Z.eqb (kout kx ky) K); [|ring].
    destruct (Z.ltb 0 (sfun kx ky)); ring.
  Qed.

  Lemma contrib_add_r sfun filt kout K kx vx ky v1 v2 :
    contrib sfun filt kout K ((kx, vx), (ky, v1 + v2))
    = contrib sfun filt kout K ((kx, vx), (ky, v1)) + contrib sfun filt kout K ((kx, vx), (ky, v2)).
  Proof.
    unfold contrib. destruct (active sfun filt kout kx ky && Z.eqb (kout kx ky) K); [|ring].
    destruct (Z.ltb 0 (sfun kx ky)); ring.
  Qed.

  Lemma contrib_scal_l sfun filt kout K c kx vx ky vy :
    contrib sfun filt kout K ((kx, c * vx), (ky, vy)) = c * contrib sfun filt kout K ((kx, vx), (ky, vy)).
  Proof.
    unfold contrib. destruct (active sfun filt kout kx ky && Z.eqb (kout kx ky) K); [|ring].
    destruct (Z.ltb 0 (sfun kx ky)); ring.
  Qed.

  Lemma contrib_scal_r sfun filt kout K c kx vx ky vy :
    contrib sfun filt kout K ((kx, vx), (ky, c * vy)) = c * contrib sfun filt kout K ((kx, vx), (ky, vy)).
  Proof.
    unfold contrib. destruct (active sfun filt kout kx ky && Z.eqb (kout kx ky) K); [|ring].
    destruct (Z.ltb 0 (sfun kx ky)); ring.
  Qed.

  (* res[k] += t  /  res[k] = t *)
  Lemma coeff_dacc K k t (d : mv R) :
    coeff O K (dacc O k t d) = coeff O K d + (if Z.eqb k K then t else rO).
  Proof.
    induction d as [|[k' v] r IH]; cbn [dacc].
    - rewrite coeff_cons, !coeff_nil. destruct (Z.eqb k K); ring.
    - destruct (Z.eqb k' k) eqn:E; rewrite !coeff_cons; ops.
      + apply Z.eqb_eq in E. subst k'. destruct (Z.eqb k K); ring.
      + destruct (Z.eqb k' K) eqn:E2.
        * apply Z.eqb_eq in E2. subst k'. rewrite Z.eqb_sym, E. ring.
        * exact IH.
  Qed.

  Lemma keys_dacc k t (d : mv R) :
    keys (dacc O k t d) = if zin k (keys d) then keys d else keys d ++ [k].
  Proof.
    induction d as [|[k' w] r IH]; cbn [dacc keys map fst].
    - reflexivity.
    - rewrite zin_cons, (Z.eqb_sym k k'). destruct (Z.eqb k' k) eqn:E; cbn [orb map fst].
      + reflexivity.
      + unfold keys in IH. rewrite IH. destruct (zin k (map fst r)); reflexivity.
  Qed.

  Lemma in_keys_dacc K k t (d : mv R) : In K (keys (dacc O k t d)) <-> K = k \/ In K (keys d).
  Proof.
    rewrite keys_dacc. destruct (zin k (keys d)) eqn:E.
    - apply zin_true_iff in E. split.
      + intros H. right. exact H.
      + intros [H|H]; [subst K; exact E | exact H].
    - rewrite in_app_iff. cbn [In]. split.
      + intros [H|[H|[]]]; [right; exact H | left; symmetry; exact H].
      + intros [H|H]; [right; left; symmetry; exact H | left; exact H].
  Qed.

  Lemma NoDup_keys_dacc k t (d : mv R) : NoDup (keys d) -> NoDup (keys (dacc O k t d)).
  Proof.
    intros Hd. rewrite keys_dacc. destruct (zin k (keys d)) eqn:E.
    - exact Hd.
    - apply zin_false_iff in E. apply NoDup_snoc; assumption.
  Qed.

  (* one loop iteration, with the guards folded into [active] *)
  Lemma product_step_eq sfun filt kout (res : mv R) kx vx ky vy :
    product_step O sfun filt kout res ((kx, vx), (ky, vy)) =
      if active sfun filt kout kx ky
      then dacc O (kout kx ky) (if Z.ltb 0 (sfun kx ky) then vx * vy else (- vx) * vy) res
      else res.
  Proof.
    unfold product_step, active, accepts.
    destruct (Z.eqb (sfun kx ky) 0); cbn [negb andb]; [reflexivity|].
    destruct filt as [f|]; [destruct (f kx ky (kout kx ky))|]; reflexivity.
  Qed.

  Lemma coeff_step sfun filt kout K (res : mv R) p :
    coeff O K (product_step O sfun filt kout res p)
    = coeff O K res + contrib sfun filt kout K p.
  Proof.
    destruct p as [[kx vx] [ky vy]]. rewrite product_step_eq. unfold contrib.
    destruct (active sfun filt kout kx ky); cbn [andb]; [|ring].
    rewrite coeff_dacc. destruct (Z.eqb (kout kx ky) K); [|ring].
    destruct (Z.ltb 0 (sfun kx ky)); ring.
  Qed.

  Lemma coeff_fold sfun filt kout K l : forall res : mv R,
    coeff O K (fold_left (product_step O sfun filt kout) l res)
    = coeff O K res + rsum (map (contrib sfun filt kout K) l).
  Proof.
    induction l as [|p l IH]; intros res; cbn [fold_left map Sparse.rsum].
    - ring.
    - rewrite IH, coeff_step. ring.
  Qed.

  (* C02, coefficient form: every blade K of the generated product carries exactly the sum of the
     contributions of all pairs of stored entries: any key lists, any order, duplicates, empty. *)
  Theorem product_coeff sfun filt kout (x y : mv R) K :
    coeff O K (codegen_product O sfun filt kout x y)
    = rsum (map (contrib sfun filt kout K) (list_prod x y)).
  Proof. unfold codegen_product. rewrite coeff_fold, coeff_nil. ring. Qed.

  (* ================= 2. the generated keys ================= *)

  Lemma in_keys_step sfun filt kout K (res : mv R) p :
    In K (keys (product_step O sfun filt kout res p)) <->
    In K (keys res)
    \/ (active sfun filt kout (fst (fst p)) (fst (snd p)) = true
        /\ kout (fst (fst p)) (fst (snd p)) = K).
  Proof.
    destruct p as [[kx vx] [ky vy]]. rewrite product_step_eq. cbn [fst snd].
    destruct (active sfun filt kout kx ky).
    - rewrite in_keys_dacc. split.
      + intros [H|H]; [right; split; [reflexivity | symmetry; exact H] | left; exact H].
      + intros [H|[_ H]]; [right; exact H | left; symmetry; exact H].
    - split; [intros H; left; exact H | intros [H|[H _]]; [exact H | discriminate]].
  Qed.

  Lemma NoDup_keys_step sfun filt kout (res : mv R) p :
    NoDup (keys res) -> NoDup (keys (product_step O sfun filt kout res p)).
  Proof.
    destruct p as [[kx vx] [ky vy]]. rewrite product_step_eq. intros H.
    destruct (active sfun filt kout kx ky); [apply NoDup_keys_dacc|]; exact H.
  Qed.

  Lemma keys_fold sfun filt kout K l : forall res : mv R,
    In K (keys (fold_left (product_step O sfun filt kout) l res)) <->
    In K (keys res)
    \/ exists p, In p l /\ active sfun filt kout (fst (fst p)) (fst (snd p)) = true
                 /\ kout (fst (fst p)) (fst (snd p)) = K.
  Proof.
    induction l as [|p l IH]; intros res; cbn [fold_left].
    - split; [intros H; left; exact H | intros [H|[p [[] _]]]; exact H].
    - rewrite IH, in_keys_step. split.
      + intros [[H|H]|[q [Hq H]]].
        * left. exact H.
        * right. exists p. split; [left; reflexivity | exact H].
        * right. exists q. split; [right; exact Hq | exact H].
      + intros [H|[q [[Hq|Hq] H]]].
        * left. left. exact H.
        * subst q. left. right. exact H.
        * right. exists q. split; assumption.
  Qed.

  Lemma NoDup_keys_fold sfun filt kout l : forall res : mv R,
    NoDup (keys res) -> NoDup (keys (fold_left (product_step O sfun filt kout) l res)).
  Proof.
    induction l as [|p l IH]; intros res H; cbn [fold_left].
    - exact H.
    - apply IH. apply NoDup_keys_step. exact H.
  Qed.

  Theorem product_keys sfun filt kout (x y : mv R) K :
    In K (keys (codegen_product O sfun filt kout x y)) <->
    exists kx vx ky vy,
      In (kx, vx) x /\ In (ky, vy) y /\ sfun kx ky <> 0%Z
      /\ accepts filt kx ky (kout kx ky) = true /\ kout kx ky = K.
  Proof.
    unfold codegen_product. rewrite keys_fold. cbn [keys map In]. split.
    - intros [[]|[[[kx vx] [ky vy]] [Hin [Ha Hk]]]]. cbn [fst snd] in Ha, Hk.
      apply in_prod_iff in Hin. destruct Hin as [Hx Hy]. apply active_true_iff in Ha.
      destruct Ha as [Hs Hf]. exists kx, vx, ky, vy. repeat split; assumption.
    - intros [kx [vx [ky [vy [Hx [Hy [Hs [Hf Hk]]]]]]]]. right.
      exists ((kx, vx), (ky, vy)). cbn [fst snd]. split; [|split].
      + apply in_prod_iff. split; assumption.
      + apply active_true_iff. split; assumption.
      + exact Hk.
  Qed.

  Theorem product_keys_NoDup sfun filt kout (x y : mv R) :
    NoDup (keys (codegen_product O sfun filt kout x y)).
  Proof. unfold codegen_product. apply NoDup_keys_fold. constructor. Qed.

  (* ================= 3. storage independence ================= *)

  (* universe form of product_coeff: the double sum may range over any duplicate-free supersets
     of the stored keys, reading the coefficients with coeff *)
  Theorem product_coeff_universe sfun filt kout (x y : mv R) Ux Uy K :
    NoDup (keys x) -> NoDup (keys y) -> NoDup Ux -> NoDup Uy ->
    incl (keys x) Ux -> incl (keys y) Uy ->
    coeff O K (codegen_product O sfun filt kout x y)
    = rsum (map (fun kk => contrib sfun filt kout K
                             ((fst kk, coeff O (fst kk) x), (snd kk, coeff O (snd kk) y)))
                (list_prod Ux Uy)).
  Proof.
    intros Hx Hy HUx HUy Hix Hiy.
    rewrite product_coeff, !(RT rsum_list_prod). cbn [fst snd].
    (* inner sums *)
    transitivity (rsum (map (fun kv : Z * R =>
        (fun kx vx => rsum (map (fun ky => contrib sfun filt kout K ((kx, vx), (ky, coeff O ky y))) Uy))
          (fst kv) (snd kv)) x)).
    - apply rsum_map_ext. intros [kx vx] _. cbn [fst snd].
      transitivity (rsum (map (fun kv : Z * R =>
          (fun ky vy => contrib sfun filt kout K ((kx, vx), (ky, vy))) (fst kv) (snd kv)) y)).
      + apply rsum_map_ext. intros [ky vy] _. reflexivity.
      + apply (RT rsum_universe (fun ky vy => contrib sfun filt kout K ((kx, vx), (ky, vy))));
          try assumption.
        intros ky. apply contrib_zero_r.
    - apply (RT rsum_universe
               (fun kx vx => rsum (map (fun ky => contrib sfun filt kout K
                                                    ((kx, vx), (ky, coeff O ky y))) Uy)));
        try assumption.
      intros kx. apply (RT rsum_map_zero). intros ky _. apply contrib_zero_l.
  Qed.

  (* a duplicate-free list containing the keys of two multivectors *)
  Definition key_union (x x' : mv R) : list Z := nodup Z.eq_dec (keys x ++ keys x').

  Lemma key_union_NoDup x x' : NoDup (key_union x x').
  Proof. apply NoDup_nodup. Qed.
  Lemma key_union_incl_l x x' : incl (keys x) (key_union x x').
  Proof. intros k H. apply nodup_In. apply in_or_app. left. exact H. Qed.
  Lemma key_union_incl_r x x' : incl (keys x') (key_union x x').
  Proof. intros k H. apply nodup_In. apply in_or_app. right. exact H. Qed.

  (* the product does not depend on how its operands are stored (order of the keys, stored zeros) *)
  Theorem product_congr sfun filt kout (x x' y y' : mv R) :
    NoDup (keys x) -> NoDup (keys x') -> NoDup (keys y) -> NoDup (keys y') ->
    x == x' -> y == y' ->
    codegen_product O sfun filt kout x y == codegen_product O sfun filt kout x' y'.
  Proof.
    intros Hx Hx' Hy Hy' Ex Ey K.
    rewrite (product_coeff_universe sfun filt kout x y (key_union x x') (key_union y y') K
               Hx Hy (key_union_NoDup _ _) (key_union_NoDup _ _)
               (key_union_incl_l _ _) (key_union_incl_l _ _)).
    rewrite (product_coeff_universe sfun filt kout x' y' (key_union x x') (key_union y y') K
               Hx' Hy' (key_union_NoDup _ _) (key_union_NoDup _ _)
               (key_union_incl_r _ _) (key_union_incl_r _ _)).
    apply rsum_map_ext. intros [kx ky] _. cbn [fst snd]. rewrite (Ex kx), (Ey ky). reflexivity.
  Qed.

  (* ================= 4. add / sub / neg / involutions / Hodge ================= *)

  (* --- one step of the loops of codegen_add / codegen_sub --- *)

  Lemma coeff_add_step K (d : mv R) k v :
    coeff O K (add_step O d (k, v)) = coeff O K d + (if Z.eqb k K then v else rO).
  Proof.
    unfold add_step. destruct (zassoc k d) as [a|] eqn:E; rewrite coeff_zset; ops.
    - destruct (Z.eqb k K) eqn:E2; [|ring].
      apply Z.eqb_eq in E2. subst K. rewrite (zassoc_some_coeff _ _ _ _ _ _ _ _ _ _ E). reflexivity.
    - destruct (Z.eqb k K) eqn:E2; [|ring].
      apply Z.eqb_eq in E2. subst K. rewrite (zassoc_none_coeff _ _ _ _ _ _ _ _ _ E). ring.
  Qed.

  Lemma coeff_sub_step K (d : mv R) k v :
    coeff O K (sub_step O d (k, v)) = coeff O K d - (if Z.eqb k K then v else rO).
  Proof.
    unfold sub_step. destruct (zassoc k d) as [a|] eqn:E; rewrite coeff_zset; ops.
    - destruct (Z.eqb k K) eqn:E2; [|ring].
      apply Z.eqb_eq in E2. subst K. rewrite (zassoc_some_coeff _ _ _ _ _ _ _ _ _ _ E). reflexivity.
    - destruct (Z.eqb k K) eqn:E2; [|ring].
      apply Z.eqb_eq in E2. subst K. rewrite (zassoc_none_coeff _ _ _ _ _ _ _ _ _ E). ring.
  Qed.

  Lemma keys_add_step (d : mv R) kv :
    keys (add_step O d kv) = if zin (fst kv) (keys d) then keys d else keys d ++ [fst kv].
  Proof.
    destruct kv as [k v]. unfold add_step, keys. cbn [fst].
    destruct (zassoc k d); apply keys_zset.
  Qed.

  Lemma keys_sub_step (d : mv R) kv :
    keys (sub_step O d kv) = if zin (fst kv) (keys d) then keys d else keys d ++ [fst kv].
  Proof.
    destruct kv as [k v]. unfold sub_step, keys. cbn [fst].
    destruct (zassoc k d); apply keys_zset.
  Qed.

  (* --- folds of such steps --- *)

  Lemma coeff_fold_add K (y : mv R) : forall d : mv R,
    NoDup (keys y) -> coeff O K (fold_left (add_step O) y d) = coeff O K d + coeff O K y.
  Proof.
    induction y as [|[k v] r IH]; intros d Hy; cbn [fold_left].
    - rewrite coeff_nil. ring.
    - cbn [keys map fst] in Hy. inversion Hy as [|? ? Hk Hr]; subst.
      rewrite (IH _ Hr), coeff_add_step, coeff_cons. destruct (Z.eqb k K) eqn:E; [|ring].
      apply Z.eqb_eq in E. subst k. rewrite (coeff_notin _ _ _ _ _ _ _ K r Hk). ring.
  Qed.

  Lemma coeff_fold_sub K (y : mv R) : forall d : mv R,
    NoDup (keys y) -> coeff O K (fold_left (sub_step O) y d) = coeff O K d - coeff O K y.
  Proof.
    induction y as [|[k v] r IH]; intros d Hy; cbn [fold_left].
    - rewrite coeff_nil. ring.
    - cbn [keys map fst] in Hy. inversion Hy as [|? ? Hk Hr]; subst.
      rewrite (IH _ Hr), coeff_sub_step, coeff_cons. destruct (Z.eqb k K) eqn:E; [|ring].
      apply Z.eqb_eq in E. subst k. rewrite (coeff_notin _ _ _ _ _ _ _ K r Hk). ring.
  Qed.

  (* keys of a fold of "insert if absent" steps: the old keys, then the new ones in order *)
  Lemma keys_fold_ins (step : mv R -> Z * R -> mv R) :
    (forall d kv, keys (step d kv)
                  = if zin (fst kv) (keys d) then keys d else keys d ++ [fst kv]) ->
    forall (y d : mv R), NoDup (keys y) ->
      keys (fold_left step y d) = keys d ++ filter (fun k => negb (zin k (keys d))) (keys y).
  Proof.
    intros Hstep. induction y as [|[k v] r IH]; intros d Hy; cbn [fold_left].
    - cbn [keys map filter]. rewrite app_nil_r. reflexivity.
    - change (keys ((k, v) :: r)) with (k :: keys r) in *.
      inversion Hy as [|? ? Hk Hr]; subst.
      rewrite (IH _ Hr), Hstep. cbn [fst filter].
      destruct (zin k (keys d)) eqn:E; cbn [negb].
      + reflexivity.
      + rewrite <- app_assoc. cbn [app]. f_equal. f_equal.
        apply filter_ext_in. intros a Ha. rewrite zin_app, zin_cons. cbn [zin existsb].
        destruct (Z.eqb a k) eqn:E2.
        * apply Z.eqb_eq in E2. subst a. contradiction.
        * rewrite !orb_false_r. reflexivity.
  Qed.

  Lemma NoDup_keys_fold_ins (step : mv R -> Z * R -> mv R) :
    (forall d kv, keys (step d kv)
                  = if zin (fst kv) (keys d) then keys d else keys d ++ [fst kv]) ->
    forall (y d : mv R), NoDup (keys d) -> NoDup (keys (fold_left step y d)).
  Proof.
    intros Hstep. induction y as [|kv r IH]; intros d Hd; cbn [fold_left].
    - exact Hd.
    - apply IH. rewrite Hstep. destruct (zin (fst kv) (keys d)) eqn:E.
      + exact Hd.
      + apply zin_false_iff in E. apply NoDup_snoc; assumption.
  Qed.

  (* --- codegen_add --- *)

  Theorem coeff_raw_add (x y : mv R) K :
    NoDup (keys x) -> NoDup (keys y) ->
    coeff O K (raw_add O x y) = coeff O K x + coeff O K y.
  Proof.
    intros Hx Hy. unfold raw_add. rewrite (todict_nodup R x Hx). apply coeff_fold_add. exact Hy.
  Qed.

  (* keys of x in their order, followed by the keys of y that are not keys of x, in their order *)
  Theorem keys_raw_add (x y : mv R) :
    NoDup (keys x) -> NoDup (keys y) ->
    keys (raw_add O x y) = keys x ++ filter (fun k => negb (zin k (keys x))) (keys y).
  Proof.
    intros Hx Hy. unfold raw_add. rewrite (todict_nodup R x Hx).
    apply (keys_fold_ins (add_step O) keys_add_step). exact Hy.
  Qed.

  Lemma NoDup_keys_raw_add (x y : mv R) : NoDup (keys (raw_add O x y)).
  Proof.
    unfold raw_add. apply (NoDup_keys_fold_ins (add_step O) keys_add_step).
    apply NoDup_keys_todict.
  Qed.

  Theorem raw_add_congr (x x' y y' : mv R) :
    NoDup (keys x) -> NoDup (keys x') -> NoDup (keys y) -> NoDup (keys y') ->
    x == x' -> y == y' -> raw_add O x y == raw_add O x' y'.
  Proof.
    intros Hx Hx' Hy Hy' Ex Ey K. rewrite !coeff_raw_add by assumption.
    rewrite (Ex K), (Ey K). reflexivity.
  Qed.

  (* --- codegen_sub --- *)

  Theorem coeff_raw_sub (x y : mv R) K :
    NoDup (keys x) -> NoDup (keys y) ->
    coeff O K (raw_sub O x y) = coeff O K x - coeff O K y.
  Proof.
    intros Hx Hy. unfold raw_sub. rewrite (todict_nodup R x Hx). apply coeff_fold_sub. exact Hy.
  Qed.

  (* the branch "key only in y": the coefficient is the negated one *)
  Corollary coeff_raw_sub_only_y (x y : mv R) K :
    NoDup (keys x) -> NoDup (keys y) -> ~ In K (keys x) ->
    coeff O K (raw_sub O x y) = - coeff O K y.
  Proof.
    intros Hx Hy Hn. rewrite (coeff_raw_sub x y K Hx Hy), (coeff_notin _ _ _ _ _ _ _ K x Hn). ring.
  Qed.

  Theorem keys_raw_sub (x y : mv R) :
    NoDup (keys x) -> NoDup (keys y) ->
    keys (raw_sub O x y) = keys x ++ filter (fun k => negb (zin k (keys x))) (keys y).
  Proof.
    intros Hx Hy. unfold raw_sub. rewrite (todict_nodup R x Hx).
    apply (keys_fold_ins (sub_step O) keys_sub_step). exact Hy.
  Qed.

  Lemma NoDup_keys_raw_sub (x y : mv R) : NoDup (keys (raw_sub O x y)).
  Proof.
    unfold raw_sub. apply (NoDup_keys_fold_ins (sub_step O) keys_sub_step).
    apply NoDup_keys_todict.
  Qed.

  Theorem raw_sub_congr (x x' y y' : mv R) :
    NoDup (keys x) -> NoDup (keys x') -> NoDup (keys y) -> NoDup (keys y') ->
    x == x' -> y == y' -> raw_sub O x y == raw_sub O x' y'.
  Proof.
    intros Hx Hx' Hy Hy' Ex Ey K. rewrite !coeff_raw_sub by assumption.
    rewrite (Ex K), (Ey K). reflexivity.
  Qed.

  (* --- codegen_neg and the involutions --- *)

  Lemma keys_map_val (h : Z -> R -> R) (x : mv R) :
    keys (map (fun kv => (fst kv, h (fst kv) (snd kv))) x) = keys x.
  Proof. unfold keys. rewrite map_map. cbn [fst]. reflexivity. Qed.

  Lemma raw_neg_nodup (x : mv R) :
    NoDup (keys x) -> raw_neg O x = map (fun kv => (fst kv, - snd kv)) x.
  Proof.
    intros Hx. unfold raw_neg. ops. apply todict_nodup.
    rewrite (keys_map_val (fun _ v => - v)). exact Hx.
  Qed.

  Theorem coeff_raw_neg (x : mv R) K :
    NoDup (keys x) -> coeff O K (raw_neg O x) = - coeff O K x.
  Proof.
    intros Hx. rewrite (raw_neg_nodup x Hx).
    apply (coeff_map_val R rO rI radd rmul rsub ropp (fun _ v => - v)). ring.
  Qed.

  Theorem keys_raw_neg (x : mv R) : NoDup (keys x) -> keys (raw_neg O x) = keys x.
  Proof. intros Hx. rewrite (raw_neg_nodup x Hx). apply (keys_map_val (fun _ v => - v)). Qed.

  Theorem raw_neg_congr (x x' : mv R) :
    NoDup (keys x) -> NoDup (keys x') -> x == x' -> raw_neg O x == raw_neg O x'.
  Proof. intros Hx Hx' Ex K. rewrite !coeff_raw_neg by assumption. rewrite (Ex K). reflexivity. Qed.

  Lemma raw_involution_nodup g (x : mv R) :
    NoDup (keys x) ->
    raw_involution O g x
    = map (fun kv => (fst kv, if involution_flips g (fst kv) then - snd kv else snd kv)) x.
  Proof.
    intros Hx. unfold raw_involution. ops. apply todict_nodup.
    rewrite (keys_map_val (fun k v => if involution_flips g k then - v else v)). exact Hx.
  Qed.

  Theorem coeff_raw_involution g (x : mv R) K :
    NoDup (keys x) ->
    coeff O K (raw_involution O g x)
    = if involution_flips g K then - coeff O K x else coeff O K x.
  Proof.
    intros Hx. rewrite (raw_involution_nodup g x Hx).
    apply (coeff_map_val R rO rI radd rmul rsub ropp
             (fun k v => if involution_flips g k then - v else v)).
    destruct (involution_flips g K); [ring | reflexivity].
  Qed.

  Theorem keys_raw_involution g (x : mv R) :
    NoDup (keys x) -> keys (raw_involution O g x) = keys x.
  Proof.
    intros Hx. rewrite (raw_involution_nodup g x Hx).
    apply (keys_map_val (fun k v => if involution_flips g k then - v else v)).
  Qed.

  Theorem raw_involution_congr g (x x' : mv R) :
    NoDup (keys x) -> NoDup (keys x') -> x == x' ->
    raw_involution O g x == raw_involution O g x'.
  Proof.
    intros Hx Hx' Ex K. rewrite !coeff_raw_involution by assumption. rewrite (Ex K). reflexivity.
  Qed.

  (* --- Hodge dual and its inverse --- *)

  Lemma keys_map_key_val (f : Z -> Z) (h : Z -> R -> R) (x : mv R) :
    keys (map (fun kv => (f (fst kv), h (fst kv) (snd kv))) x) = map f (keys x).
  Proof. unfold keys. rewrite !map_map. cbn [fst]. reflexivity. Qed.

  (* the sign rule of a dual map: negate when the given sign is negative *)
  Definition dual_val (s : Z -> Z) (k : Z) (v : R) : R := if Z.ltb (s k) 0 then - v else v.

  Lemma dual_val_zero s k : dual_val s k rO = rO.
  Proof. unfold dual_val. destruct (Z.ltb (s k) 0); [ring | reflexivity]. Qed.

  Lemma raw_hodge_nodup A (x : mv R) :
    NoDup (keys x) ->
    raw_hodge O A x
    = map (fun kv => (Z.sub (pss_key A) (fst kv),
                      dual_val (fun k => sgn A k (Z.sub (pss_key A) k)) (fst kv) (snd kv))) x.
  Proof.
    intros Hx. unfold raw_hodge. ops. cbv zeta. unfold dual_val. apply todict_nodup.
    rewrite (keys_map_key_val (fun k => Z.sub (pss_key A) k)
               (fun k v => if Z.ltb (sgn A k (Z.sub (pss_key A) k)) 0 then - v else v)).
    apply NoDup_map_inj; [apply Zsub_inj | exact Hx].
  Qed.

  Lemma raw_unhodge_nodup A (x : mv R) :
    NoDup (keys x) ->
    raw_unhodge O A x
    = map (fun kv => (Z.sub (pss_key A) (fst kv),
                      dual_val (fun k => sgn A (Z.sub (pss_key A) k) k) (fst kv) (snd kv))) x.
  Proof.
    intros Hx. unfold raw_unhodge. ops. cbv zeta. unfold dual_val. apply todict_nodup.
    rewrite (keys_map_key_val (fun k => Z.sub (pss_key A) k)
               (fun k v => if Z.ltb (sgn A (Z.sub (pss_key A) k) k) 0 then - v else v)).
    apply NoDup_map_inj; [apply Zsub_inj | exact Hx].
  Qed.

  (* the map k |-> pss - k is injective on Z, so NoDup (keys x) is all that is needed *)
  Theorem coeff_raw_hodge A (x : mv R) k :
    NoDup (keys x) ->
    coeff O (Z.sub (pss_key A) k) (raw_hodge O A x)
    = if Z.ltb (sgn A k (Z.sub (pss_key A) k)) 0 then - coeff O k x else coeff O k x.
  Proof.
    intros Hx. rewrite (raw_hodge_nodup A x Hx).
    apply (coeff_map_key_val R rO rI radd rmul rsub ropp (fun k => Z.sub (pss_key A) k)
             (dual_val (fun k => sgn A k (Z.sub (pss_key A) k)))).
    - apply Zsub_inj.
    - apply dual_val_zero.
  Qed.

  Theorem coeff_raw_unhodge A (x : mv R) k :
    NoDup (keys x) ->
    coeff O (Z.sub (pss_key A) k) (raw_unhodge O A x)
    = if Z.ltb (sgn A (Z.sub (pss_key A) k) k) 0 then - coeff O k x else coeff O k x.
  Proof.
    intros Hx. rewrite (raw_unhodge_nodup A x Hx).
    apply (coeff_map_key_val R rO rI radd rmul rsub ropp (fun k => Z.sub (pss_key A) k)
             (dual_val (fun k => sgn A (Z.sub (pss_key A) k) k))).
    - apply Zsub_inj.
    - apply dual_val_zero.
  Qed.

  (* the same, read at an arbitrary output key K (source key pss - K) *)
  Corollary coeff_raw_hodge_at A (x : mv R) K :
    NoDup (keys x) ->
    coeff O K (raw_hodge O A x)
    = if Z.ltb (sgn A (Z.sub (pss_key A) K) K) 0
      then - coeff O (Z.sub (pss_key A) K) x else coeff O (Z.sub (pss_key A) K) x.
  Proof.
    intros Hx. pose proof (coeff_raw_hodge A x (Z.sub (pss_key A) K) Hx) as H.
    replace (Z.sub (pss_key A) (Z.sub (pss_key A) K)) with K in H by lia. exact H.
  Qed.

  Corollary coeff_raw_unhodge_at A (x : mv R) K :
    NoDup (keys x) ->
    coeff O K (raw_unhodge O A x)
    = if Z.ltb (sgn A K (Z.sub (pss_key A) K)) 0
      then - coeff O (Z.sub (pss_key A) K) x else coeff O (Z.sub (pss_key A) K) x.
  Proof.
    intros Hx. pose proof (coeff_raw_unhodge A x (Z.sub (pss_key A) K) Hx) as H.
    replace (Z.sub (pss_key A) (Z.sub (pss_key A) K)) with K in H by lia. exact H.
  Qed.

  Theorem keys_raw_hodge A (x : mv R) :
    NoDup (keys x) -> keys (raw_hodge O A x) = map (fun k => Z.sub (pss_key A) k) (keys x).
  Proof. intros Hx. rewrite (raw_hodge_nodup A x Hx). apply keys_map_key_val. Qed.

  Theorem keys_raw_unhodge A (x : mv R) :
    NoDup (keys x) -> keys (raw_unhodge O A x) = map (fun k => Z.sub (pss_key A) k) (keys x).
  Proof. intros Hx. rewrite (raw_unhodge_nodup A x Hx). apply keys_map_key_val. Qed.

  Lemma NoDup_keys_raw_hodge A (x : mv R) : NoDup (keys x) -> NoDup (keys (raw_hodge O A x)).
  Proof.
    intros Hx. rewrite (keys_raw_hodge A x Hx). apply NoDup_map_inj; [apply Zsub_inj | exact Hx].
  Qed.

  Lemma NoDup_keys_raw_unhodge A (x : mv R) : NoDup (keys x) -> NoDup (keys (raw_unhodge O A x)).
  Proof.
    intros Hx. rewrite (keys_raw_unhodge A x Hx). apply NoDup_map_inj; [apply Zsub_inj | exact Hx].
  Qed.

  Theorem raw_hodge_congr A (x x' : mv R) :
    NoDup (keys x) -> NoDup (keys x') -> x == x' -> raw_hodge O A x == raw_hodge O A x'.
  Proof.
    intros Hx Hx' Ex K. rewrite !coeff_raw_hodge_at by assumption.
    rewrite (Ex (Z.sub (pss_key A) K)). reflexivity.
  Qed.

  Theorem raw_unhodge_congr A (x x' : mv R) :
    NoDup (keys x) -> NoDup (keys x') -> x == x' -> raw_unhodge O A x == raw_unhodge O A x'.
  Proof.
    intros Hx Hx' Ex K. rewrite !coeff_raw_unhodge_at by assumption.
    rewrite (Ex (Z.sub (pss_key A) K)). reflexivity.
  Qed.

  (* ================= 5. the canonically re-sorted operators ================= *)

  (* generic: any product kernel followed by the re-sort *)
  Lemma sorted_product_coeff A sfun filt kout (x y : mv R) K :
    In K (canon_keys A) ->
    coeff O K (canon_sort A (codegen_product O sfun filt kout x y))
    = rsum (map (contrib sfun filt kout K) (list_prod x y)).
  Proof. intros HK. rewrite coeff_canon_sort_in by exact HK. apply product_coeff. Qed.

  Lemma sorted_product_coeff_notin A sfun filt kout (x y : mv R) K :
    ~ In K (canon_keys A) ->
    coeff O K (canon_sort A (codegen_product O sfun filt kout x y)) = rO.
  Proof. intros HK. apply coeff_canon_sort_notin. exact HK. Qed.

  Lemma sorted_product_keys A sfun filt kout (x y : mv R) K :
    In K (keys (canon_sort A (codegen_product O sfun filt kout x y))) <->
    In K (canon_keys A) /\
    exists kx vx ky vy,
      In (kx, vx) x /\ In (ky, vy) y /\ sfun kx ky <> 0%Z
      /\ accepts filt kx ky (kout kx ky) = true /\ kout kx ky = K.
  Proof. rewrite in_keys_canon_sort, product_keys. reflexivity. Qed.

  Lemma sorted_product_congr A sfun filt kout (x x' y y' : mv R) :
    NoDup (keys x) -> NoDup (keys x') -> NoDup (keys y) -> NoDup (keys y') ->
    x == x' -> y == y' ->
    canon_sort A (codegen_product O sfun filt kout x y)
    == canon_sort A (codegen_product O sfun filt kout x' y').
  Proof. intros. apply canon_sort_congr. apply product_congr; assumption. Qed.

  Corollary gp_coeff A (x y : mv R) K : In K (canon_keys A) ->
    coeff O K (gp O A x y) = rsum (map (contrib (sgn A) None Z.lxor K) (list_prod x y)).
  Proof. apply sorted_product_coeff. Qed.
  Corollary op_coeff A (x y : mv R) K : In K (canon_keys A) ->
    coeff O K (op O A x y) = rsum (map (contrib (sgn A) (Some filter_op) Z.lxor K) (list_prod x y)).
  Proof. apply sorted_product_coeff. Qed.
  Corollary ip_coeff A (x y : mv R) K : In K (canon_keys A) ->
    coeff O K (ip O A x y) = rsum (map (contrib (sgn A) (Some filter_ip) Z.lxor K) (list_prod x y)).
  Proof. apply sorted_product_coeff. Qed.
  Corollary lc_coeff A (x y : mv R) K : In K (canon_keys A) ->
    coeff O K (lc O A x y) = rsum (map (contrib (sgn A) (Some filter_lc) Z.lxor K) (list_prod x y)).
  Proof. apply sorted_product_coeff. Qed.
  Corollary rc_coeff A (x y : mv R) K : In K (canon_keys A) ->
    coeff O K (rc O A x y) = rsum (map (contrib (sgn A) (Some filter_rc) Z.lxor K) (list_prod x y)).
  Proof. apply sorted_product_coeff. Qed.
  Corollary sp_coeff A (x y : mv R) K : In K (canon_keys A) ->
    coeff O K (sp O A x y) = rsum (map (contrib (sgn A) (Some filter_sp) Z.lxor K) (list_prod x y)).
  Proof. apply sorted_product_coeff. Qed.
  Corollary cp_coeff A (x y : mv R) K : In K (canon_keys A) ->
    coeff O K (cp O A x y)
    = rsum (map (contrib (sgn A) (Some (filter_cp (sgn A))) Z.lxor K) (list_prod x y)).
  Proof. apply sorted_product_coeff. Qed.
  Corollary acp_coeff A (x y : mv R) K : In K (canon_keys A) ->
    coeff O K (acp O A x y)
    = rsum (map (contrib (sgn A) (Some (filter_acp (sgn A))) Z.lxor K) (list_prod x y)).
  Proof. apply sorted_product_coeff. Qed.
  Corollary rp_coeff A (x y : mv R) K : In K (canon_keys A) ->
    coeff O K (rp O A x y)
    = rsum (map (contrib (sign_rp (sgn A) (alg_len A)) (Some (filter_rp (alg_len A)))
                         (keyout_rp (alg_len A)) K) (list_prod x y)).
  Proof. apply sorted_product_coeff. Qed.

  Corollary add_coeff A (x y : mv R) K :
    In K (canon_keys A) -> NoDup (keys x) -> NoDup (keys y) ->
    coeff O K (add O A x y) = coeff O K x + coeff O K y.
  Proof.
    intros HK Hx Hy. unfold add. rewrite coeff_canon_sort_in by exact HK.
    apply coeff_raw_add; assumption.
  Qed.

  Corollary sub_coeff A (x y : mv R) K :
    In K (canon_keys A) -> NoDup (keys x) -> NoDup (keys y) ->
    coeff O K (sub O A x y) = coeff O K x - coeff O K y.
  Proof.
    intros HK Hx Hy. unfold sub. rewrite coeff_canon_sort_in by exact HK.
    apply coeff_raw_sub; assumption.
  Qed.

  Corollary neg_coeff A (x : mv R) K :
    In K (canon_keys A) -> NoDup (keys x) -> coeff O K (neg O A x) = - coeff O K x.
  Proof.
    intros HK Hx. unfold neg. rewrite coeff_canon_sort_in by exact HK.
    apply coeff_raw_neg; assumption.
  Qed.

  Corollary reverse_coeff A (x : mv R) K :
    In K (canon_keys A) -> NoDup (keys x) ->
    coeff O K (reverse O A x)
    = if involution_flips grades_reverse K then - coeff O K x else coeff O K x.
  Proof.
    intros HK Hx. unfold reverse. rewrite coeff_canon_sort_in by exact HK.
    apply coeff_raw_involution; assumption.
  Qed.

  Corollary involute_coeff A (x : mv R) K :
    In K (canon_keys A) -> NoDup (keys x) ->
    coeff O K (involute O A x)
    = if involution_flips grades_involute K then - coeff O K x else coeff O K x.
  Proof.
    intros HK Hx. unfold involute. rewrite coeff_canon_sort_in by exact HK.
    apply coeff_raw_involution; assumption.
  Qed.

  Corollary conjugate_coeff A (x : mv R) K :
    In K (canon_keys A) -> NoDup (keys x) ->
    coeff O K (conjugate O A x)
    = if involution_flips grades_conjugate K then - coeff O K x else coeff O K x.
  Proof.
    intros HK Hx. unfold conjugate. rewrite coeff_canon_sort_in by exact HK.
    apply coeff_raw_involution; assumption.
  Qed.

  Corollary hodge_coeff A (x : mv R) k :
    In (Z.sub (pss_key A) k) (canon_keys A) -> NoDup (keys x) ->
    coeff O (Z.sub (pss_key A) k) (hodge O A x)
    = if Z.ltb (sgn A k (Z.sub (pss_key A) k)) 0 then - coeff O k x else coeff O k x.
  Proof.
    intros HK Hx. unfold hodge. rewrite coeff_canon_sort_in by exact HK.
    apply coeff_raw_hodge; assumption.
  Qed.

  Corollary unhodge_coeff A (x : mv R) k :
    In (Z.sub (pss_key A) k) (canon_keys A) -> NoDup (keys x) ->
    coeff O (Z.sub (pss_key A) k) (unhodge O A x)
    = if Z.ltb (sgn A (Z.sub (pss_key A) k) k) 0 then - coeff O k x else coeff O k x.
  Proof.
    intros HK Hx. unfold unhodge. rewrite coeff_canon_sort_in by exact HK.
    apply coeff_raw_unhodge; assumption.
  Qed.

  (* congruence of the sorted operators (the sorted products: sorted_product_congr) *)
  Corollary add_congr A (x x' y y' : mv R) :
    NoDup (keys x) -> NoDup (keys x') -> NoDup (keys y) -> NoDup (keys y') ->
    x == x' -> y == y' -> add O A x y == add O A x' y'.
  Proof. intros. apply canon_sort_congr. apply raw_add_congr; assumption. Qed.

  Corollary sub_congr A (x x' y y' : mv R) :
    NoDup (keys x) -> NoDup (keys x') -> NoDup (keys y) -> NoDup (keys y') ->
    x == x' -> y == y' -> sub O A x y == sub O A x' y'.
  Proof. intros. apply canon_sort_congr. apply raw_sub_congr; assumption. Qed.

  Corollary neg_congr A (x x' : mv R) :
    NoDup (keys x) -> NoDup (keys x') -> x == x' -> neg O A x == neg O A x'.
  Proof. intros. apply canon_sort_congr. apply raw_neg_congr; assumption. Qed.

  Corollary reverse_congr A (x x' : mv R) :
    NoDup (keys x) -> NoDup (keys x') -> x == x' -> reverse O A x == reverse O A x'.
  Proof. intros. apply canon_sort_congr. apply raw_involution_congr; assumption. Qed.

  Corollary involute_congr A (x x' : mv R) :
    NoDup (keys x) -> NoDup (keys x') -> x == x' -> involute O A x == involute O A x'.
  Proof. intros. apply canon_sort_congr. apply raw_involution_congr; assumption. Qed.

  Corollary conjugate_congr A (x x' : mv R) :
    NoDup (keys x) -> NoDup (keys x') -> x == x' -> conjugate O A x == conjugate O A x'.
  Proof. intros. apply canon_sort_congr. apply raw_involution_congr; assumption. Qed.

  Corollary hodge_congr A (x x' : mv R) :
    NoDup (keys x) -> NoDup (keys x') -> x == x' -> hodge O A x == hodge O A x'.
  Proof. intros. apply canon_sort_congr. apply raw_hodge_congr; assumption. Qed.

  Corollary unhodge_congr A (x x' : mv R) :
    NoDup (keys x) -> NoDup (keys x') -> x == x' -> unhodge O A x == unhodge O A x'.
  Proof. intros. apply canon_sort_congr. apply raw_unhodge_congr; assumption. Qed.

  (* Every sorted operator has pairwise distinct keys when NoDup (canon_keys A)
     (Sparse.NoDup_keys_canon_sort), all of them canonical keys (Sparse.keys_canon_sort_incl), so
     its output can be fed to the NoDup hypotheses above; outside the canonical keys its
     coefficients are 0 (Sparse.coeff_canon_sort_notin). *)

End Product.

Arguments contrib {R} rO rmul ropp sfun filt kout K p.
Arguments key_union {R} x x'.
Arguments dual_val {R} ropp s k v.

(* ================= 6. closed examples over Z (non-vacuity) ================= *)

Section ExamplesZ.
  Local Open Scope Z_scope.

  (* the theorems instantiate to the integer operations of the model (Zops) *)
  Example product_coeff_Z sfun filt kout (x y : mv Z) K :
    coeff Zops K (codegen_product Zops sfun filt kout x y)
    = rsum 0 Z.add (map (contrib 0 Z.mul Z.opp sfun filt kout K) (list_prod x y)).
  Proof. exact (product_coeff Z 0 1 Z.add Z.mul Z.sub Z.opp Zth sfun filt kout x y K). Qed.

  Example product_congr_Z sfun filt kout (x x' y y' : mv Z) :
    NoDup (keys x) -> NoDup (keys x') -> NoDup (keys y) -> NoDup (keys y') ->
    equiv 0 1 Z.add Z.mul Z.sub Z.opp x x' -> equiv 0 1 Z.add Z.mul Z.sub Z.opp y y' ->
    forall K, coeff Zops K (codegen_product Zops sfun filt kout x y)
              = coeff Zops K (codegen_product Zops sfun filt kout x' y').
  Proof. exact (product_congr Z 0 1 Z.add Z.mul Z.sub Z.opp Zth sfun filt kout x x' y y'). Qed.

  (* Cl(2,0), keys 0 = 1, 1 = e1, 2 = e2, 3 = e12 *)
  Definition A2 : alg := mk_default [1; 1] 1 false.

  Example A2_keys : canon_keys A2 = [0; 1; 2; 3].
  Proof. vm_compute. reflexivity. Qed.

  (* (e1 + 2 e2) (3 e1) = 3 - 6 e12 *)
  Example gp_ex1 : gp Zops A2 [(1, 1); (2, 2)] [(1, 3)] = [(0, 3); (3, -6)].
  Proof. vm_compute. reflexivity. Qed.

  (* unsorted operands, a repeated key in y (3 e1 and 1 e1 both contribute): raw key order is the
     order of first generation, the sorted operator returns canonical order *)
  Example gp_ex2_raw :
    raw_gp Zops A2 [(2, 2); (1, 1)] [(1, 3); (3, 5); (1, 1)] = [(3, -8); (1, -10); (0, 4); (2, 5)].
  Proof. vm_compute. reflexivity. Qed.
  Example gp_ex2 :
    gp Zops A2 [(2, 2); (1, 1)] [(1, 3); (3, 5); (1, 1)] = [(0, 4); (1, -10); (2, 5); (3, -8)].
  Proof. vm_compute. reflexivity. Qed.
  (* ... and the scalar coefficient 4 is the sum of the six contributions, two of them non-zero *)
  Example gp_ex2_contribs :
    map (contrib 0 Z.mul Z.opp (sgn A2) None Z.lxor 0)
        (list_prod [(2, 2); (1, 1)] [(1, 3); (3, 5); (1, 1)]) = [0; 0; 0; 3; 0; 1].
  Proof. vm_compute. reflexivity. Qed.

  (* storage independence, concretely: reordered operands with stored zeros give different key
     lists (stored zeros propagate) but the same coefficients *)
  Example gp_ex3_lists :
    gp Zops A2 [(2, 2); (0, 0); (1, 1)] [(1, 3)] = [(0, 3); (1, 0); (3, -6)]
    /\ gp Zops A2 [(1, 1); (2, 2)] [(3, 0); (1, 3)] = [(0, 3); (1, 0); (2, 0); (3, -6)].
  Proof. vm_compute. split; reflexivity. Qed.
  Example gp_ex3 :
    map (fun K => coeff Zops K (gp Zops A2 [(2, 2); (0, 0); (1, 1)] [(1, 3)])) [0; 1; 2; 3]
    = map (fun K => coeff Zops K (gp Zops A2 [(1, 1); (2, 2)] [(3, 0); (1, 3)])) [0; 1; 2; 3].
  Proof. vm_compute. reflexivity. Qed.

  (* (e1 + 2 e2) ^ (3 e1 + e2) = -5 e12 *)
  Example op_ex : op Zops A2 [(1, 1); (2, 2)] [(1, 3); (2, 1)] = [(3, -5)].
  Proof. vm_compute. reflexivity. Qed.

  Example rp_ex :
    rp Zops A2 [(1, 1); (2, 2); (3, 1)] [(1, 3); (2, 1); (3, 2)] = [(0, -5); (1, 5); (2, 5); (3, 2)].
  Proof. vm_compute. reflexivity. Qed.

  (* sub: key only in y is negated, a cancelled key stays stored as 0 *)
  Example sub_ex : raw_sub Zops [(1, 1); (2, 2)] [(3, 5); (1, 1)] = [(1, 0); (2, 2); (3, -5)].
  Proof. vm_compute. reflexivity. Qed.
  Example add_ex : add Zops A2 [(2, 2); (1, 1)] [(3, 5); (1, 1)] = [(1, 2); (2, 2); (3, 5)].
  Proof. vm_compute. reflexivity. Qed.

  Example reverse_ex : reverse Zops A2 [(3, 4); (1, 1); (2, 2); (0, 7)] = [(0, 7); (1, 1); (2, 2); (3, -4)].
  Proof. vm_compute. reflexivity. Qed.

  (* hodge (7 + e1 + 2 e2) = -2 e1 + e2 + 7 e12, and unhodge undoes it *)
  Example hodge_ex : hodge Zops A2 [(1, 1); (2, 2); (0, 7)] = [(1, -2); (2, 1); (3, 7)].
  Proof. vm_compute. reflexivity. Qed.
  Example unhodge_ex : unhodge Zops A2 (hodge Zops A2 [(1, 1); (2, 2); (0, 7)]) = [(0, 7); (1, 1); (2, 2)].
  Proof. vm_compute. reflexivity. Qed.

  (* the hypotheses of the coefficient theorems hold here: an instance of hodge_coeff *)
  Example hodge_coeff_ex :
    coeff Zops (pss_key A2 - 2) (hodge Zops A2 [(1, 1); (2, 2); (0, 7)]) = - 2.
  Proof.
    unfold Zops.
    rewrite (hodge_coeff Z 0 1 Z.add Z.mul Z.sub Z.opp Zth A2 [(1, 1); (2, 2); (0, 7)] 2).
    - vm_compute. reflexivity.
    - vm_compute. tauto.
    - repeat constructor; cbn; intuition lia.
  Qed.
End ExamplesZ.
