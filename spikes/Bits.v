(* Feasibility spike for DESIGN section 3 (Bits.v): the bit tricks behind the
   codegen filters, for unbounded naturals. *)
From Coq Require Import NArith ZArith Lia Bool.
Open Scope N_scope.

Lemma lxor_eq_add_iff a b : N.lxor a b = a + b <-> N.land a b = 0.
Proof.
  split.
  - intros H.
    destruct (N.add_carry_bits a b false) as (c & E1 & E2 & E3).
    cbn [N.b2n] in E1. rewrite N.add_0_r in E1.
    apply (N.nocarry_equiv a b c E2 E3).
    rewrite E1 in H.
    (* lxor a b = lxor3 a b c  ->  c = 0 *)
    apply (f_equal (N.lxor (N.lxor a b))) in H.
    rewrite N.lxor_nilpotent, <- N.lxor_assoc, N.lxor_nilpotent, N.lxor_0_l in H.
    symmetry. exact H.
  - intros H. symmetry. apply N.add_nocarry_lxor. exact H.
Qed.

(* out = kx - ky (as integers) with out = kx xor ky  <->  ky subset of kx *)
Lemma lxor_eq_sub_iff (a b : N) :
  (Z.of_N (N.lxor a b) = Z.of_N a - Z.of_N b)%Z <-> N.ldiff b a = 0.
Proof.
  split.
  - intros H.
    assert (Hle : b <= a) by lia.
    assert (H' : N.lxor a b + b = a) by lia.
    (* (a xor b) + b = a ; set x = a xor b, then a = x xor b, so x + b = x xor b *)
    assert (Hx : N.lxor (N.lxor a b) b = a).
    { rewrite N.lxor_assoc, N.lxor_nilpotent, N.lxor_0_r. reflexivity. }
    rewrite <- Hx in H' at 2. symmetry in H'.
    apply lxor_eq_add_iff in H'.
    (* land (a xor b) b = 0  ->  ldiff b a = 0 *)
    apply N.bits_inj_0. intro n.
    apply (f_equal (fun z => N.testbit z n)) in H'.
    rewrite N.land_spec, N.lxor_spec, N.bits_0 in H'.
    rewrite N.ldiff_spec.
    destruct (N.testbit a n), (N.testbit b n); cbn in *; congruence.
  - intros H.
    assert (Hs := N.sub_nocarry_ldiff a b H).
    assert (Hle : b <= a) by (apply N.ldiff_le; exact H).
    assert (Hx : N.lxor a b = N.ldiff a b).
    { apply N.bits_inj. intro n.
      apply (f_equal (fun z => N.testbit z n)) in H.
      rewrite N.ldiff_spec, N.bits_0 in H.
      rewrite N.lxor_spec, N.ldiff_spec.
      destruct (N.testbit a n), (N.testbit b n); cbn in *; congruence. }
    rewrite Hx, <- Hs. lia.
Qed.

Print Assumptions lxor_eq_add_iff.
Print Assumptions lxor_eq_sub_iff.
