# emit a Coq file: for d, dense x over Z with generic signature s_i, x * num is scalar (num = Hitzer closed form)
import sys, itertools
d=int(sys.argv[1])
def popc(k): return bin(k).count('1')
def term_sign(A,B):
    sgn=1
    for a in range(d):
        if A>>a&1:
            for b in range(a):
                if B>>b&1: sgn=-sgn
    common=[i for i in range(d) if (A>>i&1) and (B>>i&1)]
    return sgn, common
# expressions as nested python strings (unexpanded!) -> let ring do the work
def gp(X,Y):
    R={}
    for a,va in X.items():
        for b,vb in Y.items():
            sgn,common=term_sign(a,b)
            t=f"({va})*({vb})"
            for i in common: t+=f"*s{i}"
            t=("- " if sgn<0 else "")+t
            R.setdefault(a^b,[]).append(t)
    return {k:"("+" + ".join(f"({t})" for t in v)+")" for k,v in R.items()}
def inv_sign(X,grades): return {k:(f"(-({v}))" if popc(k)%4 in grades else v) for k,v in X.items()}
rev=lambda X: inv_sign(X,(2,3)); conj=lambda X: inv_sign(X,(1,2))
x={k:f"x{k}" for k in range(2**d)}
# to keep terms small introduce let-bound intermediate names via Coq "set"? simply nest.
if d==2: num=conj(x)
elif d==3:
    xc=conj(x); num=gp(xc, rev(gp(x,xc)))
elif d==4:
    xc=conj(x); xxc=gp(x,xc)
    t={k:(f"({v}) - 2*({v})" if popc(k) in (3,4) else v) for k,v in xxc.items()}
    num=gp(xc,t)
N=gp(x,num); N2=gp(num,x)
vars_=" ".join([f"x{k}" for k in range(2**d)]+[f"s{i}" for i in range(d)])
out=["From Coq Require Import ZArith Ring.","Open Scope Z_scope.",f"Section H. Variables {vars_} : Z."]
for k in range(1,2**d):
    for nm,M in (('L',N),('R',N2)):
        if k in M:
            out.append(f"Lemma nonscalar_{nm}_{k} : {M[k]} = 0. Proof. ring. Qed.")
out.append(f"Lemma twosided : {N[0]} = {N2[0]}. Proof. ring. Qed.")
out.append("End H.")
open(f"Hitzer{d}.v","w").write("\n".join(out))
print(sum(len(s) for s in out))
