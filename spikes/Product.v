(* Feasibility spike for DESIGN section 3 (Product.v) / C02: faithful model of
   kingdon.codegen.codegen_product and its coefficient formula over an ABSTRACT
   commutative ring (Section variables, discharged at End: no axioms). *)
From Coq Require Import List ZArith Bool Ring Lia.
Import ListNotations.

Section Product.
  Variable R : Type.
  Variables (rO rI : R) (radd rmul rsub : R -> R -> R) (ropp : R -> R).
  Hypothesis Rth : ring_theory rO rI radd rmul rsub ropp (@eq R).
  Add Ring Rring : Rth.
  Infix "+" := radd. Infix "*" := rmul. Notation "- x" := (ropp x).

  (* Python dict with insertion order *)
  Definition dict := list (Z * R).

  Fixpoint dacc (k : Z) (t : R) (d : dict) : dict :=      (* res[k] += t  /  res[k] = t *)
    match d with
    | [] => [(k, t)]
    | (k', v) :: r => if Z.eqb k' k then (k', v + t) :: r else (k', v) :: dacc k t r
    end.

  Fixpoint coeff (K : Z) (d : dict) : R :=                (* first match, absent = 0 *)
    match d with
    | [] => rO
    | (k, v) :: r => if Z.eqb k K then v else coeff K r
    end.

  Variable sgn : Z -> Z -> Z.                 (* algebra.signs *)
  Variable filt : Z -> Z -> Z -> bool.        (* filter_func   *)
  Variable kout : Z -> Z -> Z.                (* keyout_func   *)

  (* one iteration of   for (kx,vx),(ky,vy) in product(x.items(), y.items())   *)
  Definition step (res : dict) (p : (Z * R) * (Z * R)) : dict :=
    let '((kx, vx), (ky, vy)) := p in
    let s := sgn kx ky in
    if Z.eqb s 0 then res else
    let ko := kout kx ky in
    if negb (filt kx ky ko) then res else
    let term := if Z.ltb 0 s then vx * vy else (- vx) * vy in
    dacc ko term res.

  Definition product (x y : dict) : dict := fold_left step (list_prod x y) [].

  (* what the property demands of one pair, for output blade K *)
  Definition contrib (K : Z) (p : (Z * R) * (Z * R)) : R :=
    let '((kx, vx), (ky, vy)) := p in
    let s := sgn kx ky in
    if Z.eqb s 0 then rO else
    if negb (filt kx ky (kout kx ky)) then rO else
    if Z.eqb (kout kx ky) K then (if Z.ltb 0 s then vx * vy else - (vx * vy)) else rO.

  Fixpoint rsum (l : list R) : R := match l with [] => rO | a :: r => a + rsum r end.

  Lemma coeff_dacc K k t d :
    coeff K (dacc k t d) = coeff K d + (if Z.eqb k K then t else rO).
  Proof.
    induction d as [|[k' v] r IH]; cbn [dacc coeff].
    - destruct (Z.eqb k K); ring.
    - destruct (Z.eqb k' k) eqn:E; cbn [coeff].
      + apply Z.eqb_eq in E. subst k'. destruct (Z.eqb k K); ring.
      + destruct (Z.eqb k' K) eqn:E2.
        * apply Z.eqb_eq in E2. subst k'. rewrite Z.eqb_sym, E. ring.
        * exact IH.
  Qed.

  Lemma coeff_step K res p : coeff K (step res p) = coeff K res + contrib K p.
  Proof.
    destruct p as [[kx vx] [ky vy]]. unfold step, contrib.
    destruct (Z.eqb (sgn kx ky) 0); [ring|].
    destruct (negb (filt kx ky (kout kx ky))); [ring|].
    rewrite coeff_dacc.
    destruct (Z.eqb (kout kx ky) K); [|ring].
    destruct (Z.ltb 0 (sgn kx ky)); ring.
  Qed.

  Lemma coeff_fold K l : forall res,
    coeff K (fold_left step l res) = coeff K res + rsum (map (contrib K) l).
  Proof.
    induction l as [|p l IH]; intros res; cbn [fold_left map rsum].
    - ring.
    - rewrite IH, coeff_step. ring.
  Qed.

  (* C02, coefficient form: every blade K of a*b carries exactly the sum of the
     contributions of all pairs of stored entries, in any storage order, for
     any subsets (incl. empty), over any commutative ring. *)
  Theorem product_coeff K x y :
    coeff K (product x y) = rsum (map (contrib K) (list_prod x y)).
  Proof. unfold product. rewrite coeff_fold. cbn [coeff]. ring. Qed.
End Product.

Check product_coeff.
Print Assumptions product_coeff.

(* non-vacuity / sanity over Z: (e1 + 2 e2) * (3 e1) in Cl(2,0), keys 1=e1, 2=e2 *)
Definition sgn2 (a b : Z) : Z :=
  match a, b with 1, 2 => 1 | 2, 1 => -1 | 3, 1 => -1 | 1, 3 => 1 | 3, 2 => 1 | 2, 3 => -1 | 3, 3 => -1 | _, _ => 1 end%Z.
Example gp_example :
  product Z Z.add Z.mul Z.opp sgn2 (fun _ _ _ => true) Z.lxor [(1, 1); (2, 2)]%Z [(1, 3)]%Z
  = [(0, 3); (3, -6)]%Z.
Proof. vm_compute. reflexivity. Qed.
