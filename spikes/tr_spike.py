"""Spike: fail-closed python-ast -> Gallina translation of kingdon's kernel expressions."""
import ast, sys, textwrap
SRC = open('/repo/kingdon/codegen.py').read()
MOD = ast.parse(SRC)
FUNCS = {n.name: n for n in MOD.body if isinstance(n, ast.FunctionDef)}
class Unsupported(Exception): pass

def expr(e, env):
    """env: python name -> Gallina text (or ('lambda', args, body, env))"""
    if isinstance(e, ast.Constant) and isinstance(e.value, bool): return 'true' if e.value else 'false'
    if isinstance(e, ast.Constant) and isinstance(e.value, int): return f'({e.value})%Z' if e.value < 0 else f'{e.value}%Z'
    if isinstance(e, ast.Name):
        if e.id in env and not isinstance(env[e.id], tuple): return env[e.id]
        raise Unsupported(f'free name {e.id}')
    if isinstance(e, ast.UnaryOp) and isinstance(e.op, ast.USub): return f'(Z.opp {expr(e.operand, env)})'
    if isinstance(e, ast.BinOp):
        ops = {ast.Add:'Z.add', ast.Sub:'Z.sub', ast.Mult:'Z.mul', ast.BitXor:'Z.lxor', ast.BitAnd:'Z.land', ast.BitOr:'Z.lor', ast.Mod:'Z.modulo'}
        if type(e.op) not in ops: raise Unsupported(ast.dump(e.op))
        return f'({ops[type(e.op)]} {expr(e.left, env)} {expr(e.right, env)})'
    if isinstance(e, ast.Compare) and len(e.ops) == 1:
        l, r = e.left, e.comparators[0]
        cm = {ast.Eq:'Z.eqb', ast.Lt:'Z.ltb', ast.LtE:'Z.leb'}
        if type(e.ops[0]) in cm: return f'({cm[type(e.ops[0])]} {expr(l, env)} {expr(r, env)})'
        if isinstance(e.ops[0], ast.Gt): return f'(Z.ltb {expr(r, env)} {expr(l, env)})'
        if isinstance(e.ops[0], ast.In) and isinstance(r, (ast.Tuple, ast.Name)):
            elts = r.elts if isinstance(r, ast.Tuple) else None
            if elts is None:
                return f'(existsb (Z.eqb {expr(l, env)}) {env[r.id]})'
            return f'(existsb (Z.eqb {expr(l, env)}) [{"; ".join(expr(x, env) for x in elts)}])'
        raise Unsupported(ast.dump(e.ops[0]))
    if isinstance(e, ast.IfExp): return f'(if {expr(e.test, env)} then {expr(e.body, env)} else {expr(e.orelse, env)})'
    if isinstance(e, ast.NamedExpr): raise Unsupported('walrus must be handled by caller')
    if isinstance(e, ast.Call):
        f = e.func
        # abs(x)
        if isinstance(f, ast.Name) and f.id == 'abs' and 'abs' not in env: return f'(Z.abs {expr(e.args[0], env)})'
        # len(algebra) / len(x.algebra)
        if isinstance(f, ast.Name) and f.id == 'len': 
            a = e.args[0]
            if (isinstance(a, ast.Name) and a.id == 'algebra') or (isinstance(a, ast.Attribute) and a.attr == 'algebra'): return 'alglen'
            raise Unsupported('len of ' + ast.dump(a))
        # bin(k).count('1')
        if isinstance(f, ast.Attribute) and f.attr == 'count' and isinstance(f.value, ast.Call) and isinstance(f.value.func, ast.Name) and f.value.func.id == 'bin' and e.args[0].value == '1':
            return f'(popcount {expr(f.value.args[0], env)})'
        # application of a lambda bound in env (diff_func, sign_func...)
        if isinstance(f, ast.Name) and isinstance(env.get(f.id), tuple):
            _, params, body, cenv = env[f.id]
            inner = dict(cenv); inner.update({p: expr(a, env) for p, a in zip(params, e.args)})
            return expr(body, inner)
        if isinstance(f, ast.Name) and f.id == 'abs': return f'(Z.abs {expr(e.args[0], env)})'
        raise Unsupported('call ' + ast.dump(f))
    if isinstance(e, ast.Subscript):
        # algebra.signs[a, b]  /  x.algebra.signs[a, b] / pair[0]
        v = e.value
        if isinstance(v, ast.Attribute) and v.attr == 'signs' and isinstance(e.slice, ast.Tuple):
            a, b = e.slice.elts; return f'(sgn {expr(a, env)} {expr(b, env)})'
        if isinstance(v, ast.Name) and isinstance(e.slice, ast.Constant) and v.id in env and isinstance(env[v.id], list):
            return env[v.id][e.slice.value]
        raise Unsupported('subscript ' + ast.dump(e))
    raise Unsupported(ast.dump(e))

def lam(node, env):
    assert isinstance(node, ast.Lambda)
    return ('lambda', [a.arg for a in node.args.args], node.body, env)

def assigned_lambda(fn, name):
    for st in fn.body:
        if isinstance(st, ast.Assign) and len(st.targets) == 1 and isinstance(st.targets[0], ast.Name) and st.targets[0].id == name:
            return st.value
    raise Unsupported(f'{fn.name}: no assignment to {name}')

def local_consts(fn):
    env = {}
    for st in fn.body:
        if isinstance(st, ast.Assign) and isinstance(st.targets[0], ast.Name) and st.targets[0].id == 'key_pss':
            env['key_pss'] = expr(st.value, {})
    return env

out = []
def emit_filter(fname, defname, extra_env=None):
    fn = FUNCS[fname]; env = local_consts(fn); env.update(extra_env or {})
    L = assigned_lambda(fn, 'filter_func'); _, ps, body, _ = lam(L, env)
    inner = dict(env); inner.update({ps[0]:'kx', ps[1]:'ky', ps[2]:'kout'})
    out.append(f'Definition {defname} (kx ky kout : Z) : bool := {to_bool(body, inner)}.')

def to_bool(body, env):
    # python truthiness of an int expression: nonzero
    if isinstance(body, ast.Compare): return expr(body, env)
    return f'(negb (Z.eqb {expr(body, env)} 0%Z))'

emit_filter('codegen_op', 'filter_op')
emit_filter('codegen_cp', 'filter_cp')
emit_filter('codegen_acp', 'filter_acp')
emit_filter('codegen_rp', 'filter_rp')
# ip family: diff_func default + the three callers
ipfn = FUNCS['codegen_ip']
default = ipfn.args.defaults[0]
assert isinstance(default, ast.Name) and default.id == 'abs'
def caller_diff(fname):
    ret = FUNCS[fname].body[-1]; assert isinstance(ret, ast.Return)
    call = ret.value; assert call.func.id == 'codegen_ip'
    kw = {k.arg: k.value for k in call.keywords}; return lam(kw['diff_func'], {})
for nm, df in [('ip', ('lambda', ['x'], ast.parse('abs(x)', mode='eval').body, {})), ('lc', caller_diff('codegen_lc')), ('rc', caller_diff('codegen_rc')), ('sp', caller_diff('codegen_sp'))]:
    emit_filter('codegen_ip', f'filter_{nm}', {'diff_func': df})
# rp keyout + sign_func
rp = FUNCS['codegen_rp']; env = local_consts(rp)
_, ps, body, _ = lam(assigned_lambda(rp, 'keyout_func'), env); inner = dict(env); inner.update({ps[0]:'kx', ps[1]:'ky'})
out.append(f'Definition keyout_rp (kx ky : Z) : Z := {expr(body, inner)}.')
_, ps, body, _ = lam(assigned_lambda(rp, 'sign_func'), env); inner = dict(env); inner[ps[0]] = ['kx', 'ky']
out.append(f'Definition sign_rp (kx ky : Z) : Z := {expr(body, inner)}.')
# involutions
inv = FUNCS['codegen_involutions']; comp = inv.body[-1].value; assert isinstance(comp, ast.DictComp)
val = comp.value; assert isinstance(val, ast.IfExp)
out.append(f'Definition involution_flips (invert_grades : list Z) (k : Z) : bool := {expr(val.test, {"k":"k", "invert_grades":"invert_grades"})}.')
for nm in ['reverse', 'involute', 'conjugate']:
    call = FUNCS[f'codegen_{nm}'].body[-1].value; kw = {k.arg: k.value for k in call.keywords}
    out.append(f'Definition grades_{nm} : list Z := [{"; ".join(expr(x, {}) for x in kw["invert_grades"].elts)}].')
# hodge (walrus in key)
hd = FUNCS['codegen_hodge']
for label, comp in [('unhodge', hd.body[0].body[0].value), ('hodge', hd.body[1].value)]:
    key = comp.key; assert isinstance(key, ast.NamedExpr)
    kv = expr(key.value, {'eI': 'eI'})
    test = expr(comp.value.test, {'eI': 'eI', key.target.id: 'key_dual'})
    out.append(f'Definition {label}_key (eI : Z) : Z := {kv}.')
    out.append(f'Definition {label}_neg (eI : Z) : bool := let key_dual := {label}_key eI in {test}.')
print('(* GENERATED from /repo/kingdon/codegen.py - do not edit *)')
print('From Coq Require Import ZArith List Bool. Import ListNotations.')
print('Section Gen. Variable sgn : Z -> Z -> Z. Variable alglen : Z. Variable popcount : Z -> Z.')
print('\n'.join(out)); print('End Gen.')
